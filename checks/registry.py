"""Registry of symgo harnesses per property (read by bin/check)."""

DEFAULTS = {
    "quick": {"time": "240s", "maxpaths": 200000, "solverms": 20000, "keep": 24},
    "thorough": {"time": "1500s", "maxpaths": 2000000, "solverms": 60000, "keep": 40},
}

ASSUMPTIONS = {}

HARNESSES = []


def H(prop, pkg, name, **kw):
    d = {"property": prop, "pkg": pkg, "name": name}
    d.update(kw)
    HARNESSES.append(d)


# ---- C19 counters ----
ASSUMPTIONS["C19"] = [
    "bounded symbolic execution (symgo) of css/counters from CounterStyle.RenderValue; integers are 64-bit bit-vectors (cyclic, fixed) or mathematical integers with a no-overflow obligation (int mode)",
    "symbol lists have 1..4 one-byte symbols; value ranges per harness are listed under bounds; longer lists / multi-byte symbols are outside the claim",
    "counter scope rules (counter-reset/-set/-increment during box building) are not covered",
]
H("C19", "css/counters", "VxH_C19_cyclic", reach=["rendered"], bounds="n in 1..4 symbols; value in [-2^31, 2^31-1] (full auto range)")
H("C19", "css/counters", "VxH_C19_fixed", reach=["in-range", "fallback"], bounds="n in 1..3; first in [-4,4]; value in [-9,9]")
H("C19", "css/counters", "VxH_C19_numeric", reach=["rendered"], bounds="base 2..4; |value| <= base^3")
H("C19", "css/counters", "VxH_C19_alphabetic", reach=["rendered"], bounds="base 2..4; value in [1, n+n^2+n^3]")
H("C19", "css/counters", "VxH_C19_symbolic", reach=["rendered"], bounds="n in 1..3; value in [1, 4n]")
H("C19", "css/counters", "VxH_C19_range_low", reach=["rendered"], bounds="symbolic/alphabetic with value in [-40, 0]")
H("C19", "css/counters", "VxH_C19_additive", reach=["additive-representation", "additive-fallback"], bounds="two weights 0 <= w1 < w0 <= 12, value in [0,24] (int mode)")

CLAIMS = {}
CLAIMS["C19"] = {
    "text": "Every feasible path of CounterStyle.RenderValue and the six system algorithms (repeating, nonRepeating, symbolic, alphabetic, numeric, additive) is explored for symbolic counter values and symbol-list sizes within the stated bounds; on each path the SMT solver shows that no panic is reachable and that the rendered string equals the Counter Styles definition. Says nothing outside the bounds.",
    "design_ref": "DESIGN.md section 4 C19",
    "note": "Trusted: the symgo interpreter (validated per run by native replay of path models), z3 4.8.12, the native models of strings.Repeat/Join/Builder. Assumes one-byte symbols, <=4 symbols, value ranges per harness (see evidence bounds). Counter scoping in box building is not covered.",
}
H("C19", "css/counters", "VxH_C19_pad_negative", reach=["rendered"], bounds="decimal digits, pad 0..5, negative suffix '' or ')', value in [-120,120]")
H("C19", "css/counters", "VxH_C19_range_fallback", reach=["in-range", "out-of-range"], bounds="explicit range [lo,hi] within [-6,6], value in [-8,8]")
H("C19", "css/counters", "VxH_C19_cycles", reach=["terminated"], bounds="quick: 2 styles (thorough: 3), each fixed or extends one of the styles, decimal or a missing name, fallback likewise; value 0..9")
