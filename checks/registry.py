"""Registry of symgo harnesses per property (read by bin/check)."""

DEFAULTS = {
    "quick": {"time": "900s", "maxpaths": 400000, "solverms": 30000, "keep": 24},
    "thorough": {"time": "3000s", "maxpaths": 2000000, "solverms": 60000, "keep": 40},
}

ASSUMPTIONS = {}

HARNESSES = []


def H(prop, pkg, name, **kw):
    d = {"property": prop, "pkg": pkg, "name": name}
    d.update(kw)
    HARNESSES.append(d)


# ---- C19 counters ----
ASSUMPTIONS["C19"] = [
    "bounded symbolic execution (symgo) of css/counters from CounterStyle.RenderValue; integers are 64-bit bit-vectors (cyclic, fixed) or mathematical integers with a no-overflow obligation (int mode)",
    "symbol lists have 1..4 one-byte symbols; value ranges per harness are listed under bounds; longer lists / multi-byte symbols are outside the claim",
    "counter scope rules (counter-reset/-set/-increment during box building) are not covered",
]
H("C19", "css/counters", "VxH_C19_cyclic", reach=["rendered"], bounds="n in 1..4 symbols; value in [-2^31, 2^31-1] (full auto range)")
H("C19", "css/counters", "VxH_C19_fixed", reach=["in-range", "fallback"], bounds="n in 1..3; first in [-4,4]; value in [-9,9]")
H("C19", "css/counters", "VxH_C19_numeric", reach=["rendered"], bounds="base 2..4; |value| <= base^3")
H("C19", "css/counters", "VxH_C19_alphabetic", reach=["rendered"], bounds="base 2..4; value in [1, n+n^2+n^3]")
H("C19", "css/counters", "VxH_C19_symbolic", reach=["rendered"], bounds="n in 1..3; value in [1, 4n]")
H("C19", "css/counters", "VxH_C19_range_low", reach=["rendered"], bounds="symbolic/alphabetic with value in [-40, 0]")
H("C19", "css/counters", "VxH_C19_additive", reach=["additive-representation", "additive-fallback"], bounds="two weights 0 <= w1 < w0 <= 12, value in [0,24] (int mode)")

CLAIMS = {}
CLAIMS["C19"] = {
    "text": "Every feasible path of CounterStyle.RenderValue and the six system algorithms (repeating, nonRepeating, symbolic, alphabetic, numeric, additive) is explored for symbolic counter values and symbol-list sizes within the stated bounds; on each path the SMT solver shows that no panic is reachable and that the rendered string equals the Counter Styles definition. Says nothing outside the bounds.",
    "design_ref": "DESIGN.md section 4 C19",
    "note": "Trusted: the symgo interpreter (validated per run by native replay of path models), z3 4.8.12, the native models of strings.Repeat/Join/Builder. Assumes one-byte symbols, <=4 symbols, value ranges per harness (see evidence bounds). Counter scoping in box building is not covered.",
}
H("C19", "css/counters", "VxH_C19_pad_negative", reach=["rendered"], bounds="decimal digits, pad 0..5, negative suffix '' or ')', value in [-120,120]")
H("C19", "css/counters", "VxH_C19_range_fallback", reach=["in-range", "out-of-range"], bounds="explicit range [lo,hi] within [-6,6], value in [-8,8]")
H("C19", "css/counters", "VxH_C19_cycles", reach=["terminated"], bounds="quick: 2 styles (thorough: 3), each fixed or extends one of the styles, decimal or a missing name, fallback likewise; value 0..9")
H("C19", "css/counters", "VxH_C19_pad_nosign", reach=["rendered", "fixed-out-of-range"], bounds="cyclic(2 symbols) or fixed(first=-3, 4 symbols), pad 0..4, value in [-6,6]")

# ---- C17 transforms ----
ASSUMPTIONS["C17"] = [
    "real mode: float32/float64 arithmetic is modelled as exact real arithmetic (QF_NRA); rounding error, overflow to Inf, NaN and -0 are outside the claim",
    "math.Sin/Cos/Tan are uninterpreted functions (the same symbol in code and oracle), so only *which* trigonometric value lands in which matrix slot is decided",
]
CLAIMS["C17"] = {
    "text": "For fully symbolic 2x3 affine matrices and arguments the solver shows (over the reals) associativity, identity, Apply homomorphism, two-sided inverse iff det != 0, in-place operations = right multiplication by the constructor, and constructors / CSS / SVG transform functions = the specification matrices. One path per law; no bound on magnitudes.",
    "design_ref": "DESIGN.md section 4 C17",
    "note": "Trusted: symgo, z3 nlsat. Real-mode abstraction of floats; trigonometric functions uninterpreted. Transform lists of at most 2 functions in the CSS harness; SVG transform text is parsed from a fixed set of spellings with symbolic numbers.",
}
H("C17", "matrix", "VxH_C17_group", mode="real", reach=["done"], bounds="three fully symbolic matrices, symbolic point")
H("C17", "matrix", "VxH_C17_invert", mode="real", reach=["singular", "regular"], bounds="one fully symbolic matrix")
H("C17", "matrix", "VxH_C17_inplace", mode="real", reach=["done"], bounds="fully symbolic matrix and arguments")
H("C17", "matrix", "VxH_C17_ctor", mode="real", reach=["done"], bounds="fully symbolic arguments")

# ---- C05 selectors ----
ASSUMPTIONS["C05"] = [
    "selectors are built from the package's own selector node types (in-package harness); documents are hand-built x/net/html node trees with symbolic node types, tags and attribute bytes",
    "attribute and text bytes are assumed ASCII (< 0x80); non-ASCII case folding (strings.EqualFold vs ASCII case-insensitivity) is outside the claim",
    "an+b: integers in int mode (mathematical integers with a no-overflow obligation) within the stated coefficient ranges",
]
CLAIMS["C05"] = {
    "text": "For symbolic sibling lists (<=4 nodes of symbolic kind/tag), symbolic an+b coefficients, symbolic ASCII attribute/selector values (<=3/<=2 bytes; thorough 4/2) and every operator, the solver shows that Match equals the Selectors definition written as an independent oracle, that specificity composes as specified and that no path panics.",
    "design_ref": "DESIGN.md section 4 C05",
    "note": "Trusted: symgo, z3, native models of strings.* leaf functions. Bounds as stated; :lang/:contains/regex selectors, non-ASCII bytes and the selector text parser beyond the round-trip harness are outside the claim.",
}
H("C05", "css/selector", "VxH_C05_nth", reach=["element", "not-an-element"], bounds="1..3 (thorough 4) siblings of symbolic kind (element/text/comment) and tag (a/b); a enumerated in [-5,5], b symbolic in [-5,5]; last, ofType symbolic")
H("C05", "css/selector", "VxH_C05_nth_wide", reach=["match", "no-match"], bounds="3 siblings; a enumerated in [-8,8], |b| <= 2^10 (thorough 2^20) symbolic, witness n arbitrary in [0, 2^11+8] (thorough 2^21+8)")
H("C05", "css/selector", "VxH_C05_only", reach=["element"], bounds="1..3 siblings")
H("C05", "css/selector", "VxH_C05_attr", reach=["op:=", "op:~=", "op:|=", "op:^=", "op:$=", "op:*=", "op:!="], bounds="attribute value 0..3 ASCII bytes (thorough 4), selector value 0..2 ASCII bytes, i flag symbolic, 7 operators")
H("C05", "css/selector", "VxH_C05_empty", reach=["done"], bounds="0..2 children, text of 0..2 ASCII bytes")
H("C05", "css/selector", "VxH_C05_spec", reach=["done"], bounds="three leaf selectors with symbolic specificity components in [0,9]")
H("C05", "css/selector", "VxH_C05_comb", reach=["done"], bounds="tree root>c0,c1,c2; c1>g with symbolic node kinds/tags; 8 selector shapes over leaf tag selectors")

# ---- C07 parsers never crash ----
ASSUMPTIONS["C07"] = [
    "inputs are arbitrary byte strings (every byte value 0..255, invalid UTF-8 included) or arbitrary token lists up to the stated lengths; longer inputs are outside the claim",
    "regexp is modelled by a backtracking VM over the real regexp/syntax program; strconv.ParseFloat on symbolic digits is a syntax acceptor with an uninterpreted value",
]
CLAIMS["C07"] = {
    "text": "Pure panic-freedom and termination obligations: the listed parsers are executed symbolically on arbitrary bytes / tokens up to the stated lengths; every feasible path returns, none panics.",
    "design_ref": "DESIGN.md section 4 C07",
    "note": "Trusted: symgo, z3, the regexp and ParseFloat models. Bounded input lengths (2-4 bytes quick, 3-6 thorough depending on the parser).",
}
H("C07", "css/parser", "VxH_C07_tokenize", reach=["tokenized"], bounds="Tokenize on every byte string of length 0..2 (thorough 0..3), skipComments symbolic", thorough={"shards": 12, "time": "2400s", "maxpaths": 4000000, "sharddepth": 8})

# ---- C20 serialisation round trip ----
ASSUMPTIONS["C20"] = [
    "token values are valid UTF-8 without NUL (the tokenizer itself maps NUL to U+FFFD); lengths as stated",
    "comparison ignores comments and source positions, as the property does; numeric values are compared through their textual representation and integer flag",
]
CLAIMS["C20"] = {
    "text": "For symbolic token values (identifiers, at-keywords, hashes, function names, strings, urls of <=2-3 bytes), for pairs of adjacent tokens of symbolic kinds, and for every error-free token list obtained from <=2 (thorough 3) source bytes, the solver shows Tokenize(Serialize(tokens)) == tokens.",
    "design_ref": "DESIGN.md section 4 C20",
    "note": "Trusted: symgo, z3, regexp model, fmt model. Bounded lengths; ParseFloat value uninterpreted.",
}
H("C20", "css/parser", "VxH_C20_ident", reach=["reparsed"], bounds="ident / at-keyword / id-hash / function name of 1..3 bytes (thorough 4), valid UTF-8, no NUL")
H("C20", "css/parser", "VxH_C20_string", reach=["reparsed"], bounds="string / url value of 0..3 bytes (thorough 4), valid UTF-8, no NUL")
H("C20", "css/parser", "VxH_C20_source", reach=["reparsed", "parse-error"], bounds="valid UTF-8 source text of 0..3 bytes (thorough 4)", thorough={"shards": 12, "time": "2400s", "maxpaths": 4000000, "sharddepth": 8})
H("C20", "css/parser", "VxH_C20_pairs", reach=["reparsed", "not-single-tokens"], bounds="two adjacent tokens, each tokenized from its own valid UTF-8 source of 1..2 bytes (quick: not both of 2 bytes)", quick={"shards": 8, "time": "400s", "sharddepth": 6}, thorough={"shards": 12, "time": "2400s", "maxpaths": 4000000, "sharddepth": 8})
H("C20", "css/parser", "VxH_C20_unit", reach=["reparsed"], bounds="dimension 1<unit> / 1.5<unit>, unit of 1..2 bytes (thorough 3), valid UTF-8, no NUL")

# ---- C06 CSS Syntax ----
ASSUMPTIONS["C06"] = [
    "claim assembled from predicate-level differentials against CSS Syntax Level 3 (identifier start, numbers, escapes, url) on symbolic bytes, plus compositional error-recovery laws on symbolic token lists; inputs longer than the stated bounds are outside the claim",
    "source text is assumed to be valid UTF-8 where stated (CSS Syntax works on decoded code points)",
]
CLAIMS["C06"] = {
    "text": "The solver shows, for all inputs within the bounds, that the tokenizer's identifier-start / number / escape / url decisions equal independent oracles written from CSS Syntax Level 3, and that declaration-list, block-contents and rule-list parsing are compositional at ';' and at a rule's {} block (a malformed construct consumes exactly its own tokens).",
    "design_ref": "DESIGN.md section 4 C06",
    "note": "Trusted: symgo, z3, regexp model. Token lists of <=2+1+2 tokens (thorough 3+1+3) over 9 token kinds; byte strings of <=3-5 bytes.",
}
H("C06", "css/parser", "VxH_C06_compose_semicolon", reach=["blocks-contents", "declaration-list"], bounds="token lists A of 0..1 (thorough 0..2) and B of 0..2 tokens over 9 kinds (17 spellings): parse(A ; B) = parse(A ;) ++ parse(B)", quick={"shards": 4}, thorough={"shards": 12, "time": "2400s", "maxpaths": 8000000})
H("C06", "css/parser", "VxH_C06_compose_rules", reach=["rules"], bounds="prelude of 0..2 and rest of 0..1 (thorough 0..2) tokens: parse(prelude {..} rest) = parse(prelude {..}) ++ parse(rest), rule list and stylesheet", quick={"shards": 4}, thorough={"shards": 12, "time": "2400s", "maxpaths": 8000000})
H("C06", "css/parser", "VxH_C06_important", reach=["declaration"], bounds="value of 0..2 tokens followed by ! [ws] important|IMPORTANT|ImPortant|importan [ws]")
H("C06", "css/parser", "VxH_C06_identstart", reach=["decided"], bounds="valid UTF-8 preprocessed text of 1..3 bytes (thorough 4)")
H("C06", "css/parser", "VxH_C06_number", reach=["number", "not-a-number"], bounds="valid UTF-8 preprocessed text of 1..3 bytes (thorough 4)", quick={"shards": 4, "sharddepth": 6}, thorough={"shards": 12, "sharddepth": 8, "time": "2400s", "maxpaths": 8000000})
H("C06", "css/parser", "VxH_C06_escape", reach=["escape", "not-an-escape"], bounds="backslash followed by 0..2 bytes (thorough 4) of valid UTF-8 preprocessed text", quick={"shards": 8, "sharddepth": 6}, thorough={"shards": 12, "sharddepth": 8, "time": "2400s", "maxpaths": 8000000})
H("C06", "css/parser", "VxH_C06_badurl", reach=["tokenized"], bounds="'url(a b' followed by 0..4 bytes (thorough 5) of valid UTF-8 preprocessed text", quick={"shards": 4}, thorough={"shards": 12, "time": "2400s", "maxpaths": 8000000})
H("C07", "svg", "VxH_C07_svg_attrs", reach=["parseValue", "parseViewbox", "parsePreserveAspectRatio", "parsePoints"], bounds="9 SVG attribute parsers on every byte string of length 0..3 (thorough 4)", thorough={"shards": 8, "time": "2400s", "maxpaths": 4000000})
H("C07", "svg", "VxH_C07_svg_transform", reach=["parsed-with-name"], bounds="parseTransform on every byte string of length 0..3 (thorough 4), alone and after 5 function names", thorough={"shards": 8, "time": "2400s", "maxpaths": 4000000})
H("C07", "svg", "VxH_C07_svg_path", reach=["parsed-after-command"], bounds="parsePath on every byte string of length 0..3 (thorough 4), alone and after 7 command prefixes", thorough={"shards": 8, "time": "2400s", "maxpaths": 4000000})

# ---- C18 SVG geometry ----
ASSUMPTIONS["C18"] = [
    "numbers in path data are symbolic digit strings; their values are an uninterpreted function of the bytes (the same in code and oracle), so the checks decide how text is split and which number goes where, not decimal conversion",
    "real mode for the viewBox arithmetic; arcs (trigonometric, data-dependent segment counts), shapes, markers, gradients and use-resolution are outside the claim",
]
CLAIMS["C18"] = {
    "text": "The solver shows that number lists are split exactly as the SVG number grammar prescribes, that each path command (absolute/relative, implicit repetition, H/V, smooth S/T reflection, quadratic elevation, closepath) produces the operations of a reference SVG path interpreter for symbolic coordinates, and that preserveAspectRatio/viewBox yields the specified scale and offsets for fully symbolic sizes.",
    "design_ref": "DESIGN.md section 4 C18",
    "note": "Trusted: symgo, z3 (nlsat), ParseFloat model. Number lists of <=4 bytes (thorough 5) over the alphabet [0-9.+-e ,]; path histories of two commands with <=2 argument groups; arcs not covered.",
}
H("C18", "svg", "VxH_C18_numbers", reach=["valid", "invalid"], bounds="number list text of 1..4 bytes (thorough 5) over [0-9 . - + e space comma]", thorough={"shards": 8, "time": "2400s", "maxpaths": 4000000})
H("C18", "svg", "VxH_C18_viewbox", mode="real", reach=["resolved"], bounds="fully symbolic positive viewport and viewBox sizes, symbolic origin; 9 alignments x none/meet/slice")
H("C18", "svg", "VxH_C18_path", mode="real", reach=["parsed"], bounds="'M x y', one optional previous command (L C Q S T Z c q), then any of MmLlHhVvCcSsQqTtZz with 1..2 argument groups; coordinates are symbolic digits")

# ---- C03 cascade ----
ASSUMPTIONS["C03"] = [
    "one element, one property (orphans), K competing declarations with symbolic origin, importance and selector specificity supplied through hand-built sheets whose selectors are stubs that match every element; real selector matching is C05's subject",
    "@import / @media filtering and stylesheet fetching are outside the claim",
]
CLAIMS["C03"] = {
    "text": "The solver explores every combination of origin, importance, specificity and position for K<=2 (thorough 3) declarations plus an optional (important) style attribute and shows that the value computed by the real cascade (newStyleFor, weight.Less, declarationPrecedence, findStyleAttributes) is the one the CSS cascade order designates; the weight order is shown to be a total preorder; nested-rule flattening preserves source order; @page :nth matching equals the an+b definition.",
    "design_ref": "DESIGN.md section 4 C03",
    "note": "Trusted: symgo, z3. Stub selectors; K bounded; single property.",
}
H("C03", "html/tree", "VxH_C03_precedence", reach=["compared"], bounds="two (origin, important) pairs")
H("C03", "html/tree", "VxH_C03_weight", reach=["done"], bounds="three weights, precedence 1..5, specificity components 0..3")
H("C03", "html/tree", "VxH_C03_cascade", reach=["computed", "style-attribute"], bounds="K=2 (thorough 3) declarations: origin in {UA,user,author}, importance, specificity in [0..2]x[0..1]x[0..1]; optional style attribute (plain / !important)")
H("C03", "css/validation", "VxH_C03_nesting", reach=["flattened"], bounds="style rule with 1..3 items, each an own declaration, a nested '&{...}' rule or an unrelated nested rule")
H("C03", "html/tree", "VxH_C03_page", reach=["nth-match", "nth-no-match"], bounds="@page selector with side/name/blank/first symbolic, :nth step A enumerated in [-6,6], offset |B| <= 2^10 (thorough 2^20), page index in [0, 2^10] (thorough 2^20), witness n arbitrary")
H("C03", "html/tree", "VxH_C03_sheets", reach=["computed"], bounds="GetAllComputedStyles with UA / presentational-hint / optional user sheets holding one rule of symbolic specificity in [0,3]^3 each, against an author <style> rule p{...}")

# ---- C08 declarations ----
ASSUMPTIONS["C08"] = [
    "declarations are drawn from a pool of ~110 representative property/value spellings covering lengths in every unit family, angles, resolutions, keywords, functions and shorthands; other properties are outside the claim",
    "var() substitution and cyclic references are covered by the C01/C08 var harnesses only for token lists of bounded size",
]
CLAIMS["C08"] = {
    "text": "Relational (2-safety) checks on the real validators and expanders: for each of ~110 pooled declarations the letter case of every identifier, unit, function and property-name letter is symbolic and the solver shows the validated output equals that of the lower-case spelling; white space / comment insertion and declaration isolation are shown the same way.",
    "design_ref": "DESIGN.md section 4 C08",
    "note": "Trusted: symgo, z3, DeepEqual on interpreter values. Pool-bounded.",
}
H("C08", "css/validation", "VxH_C08_case", reach=["validated"], bounds="110 pooled declarations; every ASCII letter of names, keywords, units and function names has symbolic case")
H("C08", "css/validation", "VxH_C08_whitespace", reach=["validated"], bounds="pooled declarations with a comment or extra white space inserted at one symbolic gap (between value tokens or inside function arguments) or at every gap")
H("C08", "css/validation", "VxH_C08_isolation", reach=["validated"], bounds="[orphans:3, X, widows:4] where X is a pooled declaration damaged in one of 4 ways (unknown name, one token replaced by one of 7 junk tokens, junk appended, empty value)")
H("C08", "css/validation", "VxH_C08_sides", mode="real", reach=["expanded"], bounds="margin / padding / border-width with 1..4 symbolic px lengths")
H("C08", "html/tree", "VxH_C08_var", reach=["computed"], divergence=True, bounds="custom properties --a, --b (thorough --c) each undefined or one of 8 definitions (number, ident, var() of each other, with and without fallback); orphans: var(...) in 3 forms", quick={"maxdepth": 250})
H("C08", "html/tree", "VxH_C08_var_shorthand", reach=["computed"], bounds="4 shorthand declarations using var(--m), --m one of {4px, 0, auto, red}, declared in a style attribute or in a <style> sheet; compared with the hand-substituted declaration")

# ---- C04 computed values ----
ASSUMPTIONS["C04"] = [
    "styles are computed by the real newStyleFor / ComputedStyle code for a two-element document (root, child) whose rules use stub selectors; magnitudes are symbolic reals in (0, 1000] (real mode, float32 ratio constants within the comparison tolerance)",
    "ex / ch (text measurement), pseudo-elements, page contexts and anonymous boxes beyond the listed harness are outside the claim",
]
CLAIMS["C04"] = {
    "text": "For each of the ~230 properties and each of {no declaration, inherit, initial} the solver-backed executor shows the child's computed value exists and equals the parent's computed value or the computed initial value; for symbolic lengths in every unit it shows the absolute-unit ratios and the font-size reference (parent for font-size em/%, own for other em, root for rem).",
    "design_ref": "DESIGN.md section 4 C04",
    "note": "Trusted: symgo, z3 nlsat, DeepEqual on interpreter values.",
}
H("C04", "html/tree", "VxH_C04_length", mode="real", reach=["computed"], bounds="root font-size, child font-size and width symbolic in (0,1000], units enumerated over px pt pc in cm mm q em rem %")
H("C04", "html/tree", "VxH_C04_defaulting", mode="real", reach=["computed"], bounds="every known property x {undeclared, inherit, initial} on a child of a root with symbolic font-size")
H("C04", "html/tree", "VxH_C04_root", reach=["computed"], bounds="every known property x {inherit, initial} on the root element")
H("C04", "html/tree", "VxH_C04_shared_rule", mode="real", reach=["computed"], bounds="two siblings with symbolic font sizes sharing one rule with em lengths (transform: translate, width, margin-left)")
H("C04", "html/tree", "VxH_C04_relative_on_root", reach=["computed"], bounds="font-weight bolder/lighter and font-size larger/smaller on the root element")

# ---- C10 block layout ----
ASSUMPTIONS["C10"] = [
    "real mode (exact real arithmetic); one block-level box with fully symbolic containing-block width, paddings/borders >= 0, width/margins auto or symbolic, min/max-width; ltr; normal flow only",
    "floats, clearance, rtl, replaced boxes and tables are outside the claim",
]
CLAIMS["C10"] = {
    "text": "For every combination of auto / non-auto width and margins and arbitrary real magnitudes the solver shows the used width and margins produced by blockLevelWidth (with min/max re-resolution) follow CSS 2.1 10.3.3-10.4, that percentages resolve against the containing block width, and that adjoining margins collapse to max-positive + min-negative.",
    "design_ref": "DESIGN.md section 4 C10",
    "note": "Trusted: symgo, z3 nlsat. Real-mode abstraction of float32.",
}
H("C10", "html/layout", "VxH_C10_width", mode="real", reach=["resolved"], bounds="one block box: containing block width >= 0, paddings/borders >= 0, width auto or >= 0, margins auto or any real, min-width >= 0, max-width none or >= 0 (all symbolic reals)")
H("C10", "html/layout", "VxH_C10_collapse", mode="real", reach=["collapsed"], bounds="1..4 (thorough 5) fully symbolic adjoining margins")
H("C10", "html/layout", "VxH_C10_percent", mode="real", reach=["resolved"], bounds="one of margin-left/top, padding-right/bottom, width, min-width as px / % / auto with symbolic magnitude; symbolic containing block; 3 box-sizing values with symbolic left padding and border")
H("C10", "html/layout", "VxH_C10_stack", mode="real", reach=["laid-out"], bounds="<section><article/></section><aside/> laid out by the real pipeline: parent padding-top/bottom 0 or in [1,50], child height in [1,100], margins in [-20,20] (symbolic)", quick={"maxsteps": 50000000, "time": "400s"})

# ---- C12 pages ----
ASSUMPTIONS["C12"] = [
    "real mode; text-free documents laid out by the real pipeline (tree.NewHTML, BuildFormattingStructure, layoutDocument) with hand-built sheets carrying symbolic lengths; nil font configuration",
    "VxH_C12_paragraph: text is measured by text.VxAhem, a metric-exact stand-in for the Pango / go-text engines (every rune a 10px em square, breaks after spaces only, no bidi / hyphenation / shaping)",
    "margin boxes, page counters, named pages through the `page` property and re-pagination are outside the claim",
]
CLAIMS["C12"] = {
    "text": "For three blocks of symbolic heights on 100px pages and every combination of break-after / break-before values in {auto, page, left, right, avoid} the solver shows each block lands on the page and position that CSS fragmentation prescribes (forced breaks, blank page for the requested side, greedy filling, no overflow past the page bottom); page box geometry and @page selector matching (C03 page harness) are shown for symbolic sizes. For a paragraph of 3..6 lines on pages of symbolic height, every line is laid out once, no page is over-full and orphans / widows in 1..3 are honoured on every page where a conforming break position exists.",
    "design_ref": "DESIGN.md section 4 C12 and 8.3",
    "note": "Trusted: symgo, z3 nlsat. Bounded document shape.",
}
H("C12", "html/layout", "VxH_C12_breaks", mode="real", reach=["laid-out", "blank-page-inserted"], bounds="3 sibling blocks with heights in [10,90] on 100x100 pages without margins; break-after of the first and break-before of the second in {auto,page,left,right,avoid}", quick={"maxsteps": 50000000, "time": "500s", "shards": 4})
H("C12", "html/layout", "VxH_C12_pagebox", mode="real", reach=["laid-out"], bounds="@page size W x H in [100,1000]^2, margins auto or in [0,20], width auto or in [10,50], padding in [0,10] (symbolic)", quick={"maxsteps": 50000000})
H("C12", "html/tree", "VxH_C03_page", reach=["nth-match", "nth-no-match"], bounds="@page selector matching, see C03")

# ---- C09 box tree (grid slots only) / C13 ----
ASSUMPTIONS["C09"] = [
    "real pipeline (NewHTML, GetAllComputedStyles, BuildFormattingStructure); the table grid-slot assignment with symbolic colspan / rowspan attribute digits, and the well-formedness rules of the statement on one document shape (x-p > x-s > (text, x-i, text, x-j > x-k)) for every assignment of display values (plus float / position of x-i) within the bound; other document shapes, pseudo-elements and list markers are outside the claim",
]
CLAIMS["C09"] = {
    "text": "For a table of 2 (thorough 3) rows x 2 cells whose colspan and rowspan attributes are symbolic digits (0..3, or absent) the solver shows every cell gets the grid slot of the HTML table model: increasing within a row, first slot never occupied by a row-spanning cell from above, rowspan clipped to the row group with 0 meaning to its end, colspan at least 1. For the five-element document every assignment of display values yields a tree in which block containers hold only block-level boxes or one line box, inline and line boxes hold only inline-level boxes, tables sit in wrappers and hold only table parts (rows in groups, cells in rows), flex / grid containers hold only blockified items and display: none generates no box.",
    "design_ref": "DESIGN.md section 4 C09",
    "note": "Trusted: symgo, z3. Only wrapTable/integerAttribute/NewTableCellBox are decided; the rest of the box-generation rules is outside this technique's reach here.",
}
H("C09", "html/boxes", "VxH_C09_grid", reach=["built"], bounds="table of 2 rows x 2 cells (thorough: a third, attribute-free row in between); colspan and (except in the last row) rowspan absent or a symbolic digit 0..3", quick={"maxsteps": 50000000, "time": "500s", "shards": 8}, thorough={"maxsteps": 50000000, "time": "3000s", "shards": 16, "maxpaths": 4000000})
H("C13", "html/boxes", "VxH_C09_grid", reach=["built"], tiers=["quick"], bounds="table grid slots, see C09 (the deeper bound is explored once, under C09 thorough)", quick={"maxsteps": 50000000, "time": "500s", "shards": 8}, thorough={"maxsteps": 50000000, "time": "3000s", "shards": 16, "maxpaths": 4000000})

# ---- C13 tables ----
ASSUMPTIONS["C13"] = [
    "real mode; a 2-column, 2-row text-free table laid out by the real pipeline with symbolic table width, cell widths / heights and border-spacing; fixed and auto layout, ltr and rtl; separate borders model",
    "collapsed borders, captions, column groups, row groups beyond one, percentages and page breaks inside tables are outside the claim",
]
CLAIMS["C13"] = {
    "text": "The solver shows, for all symbolic sizes within the bounds, that cells of a column share left/right edges, a spanning cell covers its columns plus the spacing between them (mirrored in rtl), columns and spacing fill the used table width which is at least the specified width, cells of a row share top edge and height, no size is negative; and (C09 grid harness) that grid slots are assigned as the HTML table model prescribes.",
    "design_ref": "DESIGN.md section 4 C13",
    "note": "Trusted: symgo, z3 nlsat.",
}
H("C13", "html/layout", "VxH_C13_columns", mode="real", reach=["laid-out"], bounds="table width in [50,300], cell widths in [0,200], heights in [5,40], spacing in [0,10] (symbolic); fixed/auto layout; ltr/rtl", quick={"maxsteps": 80000000, "time": "500s"})

# ---- C14 backend protocol (links, outline) ----
ASSUMPTIONS["C14"] = [
    "link/anchor resolution and the bookmark outline on hand-built Page values with symbolic bookmark levels and symbolic anchor / link names; finiteness of the SVG dash pattern handed to SetDash (real mode: the paths on which the real code divides by zero are decided by running their solver model natively); 'paint and clip follow a path' on the recording canvas of the C16 paint harness; fonts-before-text and the finiteness of the other numbers are not encoded",
]
CLAIMS["C14"] = {
    "text": "For <=4 (thorough 5) bookmarks of symbolic levels 1..6 split over two pages the solver shows makeBookmarkTree builds exactly the outline defined by the levels; for two pages with up to two anchors and two links each, with symbolic names, resolveLinks defines each anchor once on the first page that has it, drops dangling internal links and keeps the others. resolveDashes never hands SetDash a negative, NaN or infinite number and wraps a negative offset into [0, total].",
    "design_ref": "DESIGN.md section 4 C14",
    "note": "Trusted: symgo, z3.",
}
H("C14", "html/document", "VxH_C14_outline", reach=["built"], bounds="1..4 (thorough 5) bookmarks, levels symbolic in 1..6, split over two pages")
H("C14", "html/document", "VxH_C14_links", reach=["resolved"], bounds="2 pages x up to 2 anchors and 2 links, names symbolic in {a,b,c}, link type internal/external", quick={"shards": 6})

# ---- C15 determinism (map order, shared state) ----
ASSUMPTIONS["C15"] = [
    "Go map iteration order is a symbolic choice (every permutation of the keys of each ranged map is explored); the sites covered are the anchor lists of resolveLinks and the SVG template resolution of inheritDefs; shared state: the hyphenation dictionary data used by two Hyphener values; goroutine interleavings, data races and process-to-process comparison are outside this technique (no encoding of Go's memory model)",
]
CLAIMS["C15"] = {
    "text": "With map iteration order turned into a solver-chosen permutation, two runs of resolveLinks on the same document (1..3 anchors on the first page, 2 on the second) are shown to hand identical anchor lists to the backend; two runs of the SVG href-template resolution on every reference graph of three gradients give identical attributes; two hyphenations of the same word through a shared dictionary give the same result and leave the dictionary unchanged.",
    "design_ref": "DESIGN.md section 4 C15",
    "note": "Trusted: symgo's model of map iteration (any permutation), z3. Native confirmation of a counterexample repeats the run 40 times, relying on Go's randomised range order.",
}
H("C15", "html/document", "VxH_C15_anchor_order", reach=["compared"], bounds="page 1 with 1..3 anchors, page 2 with 2 anchors (one duplicate name); every permutation of every ranged map")

# ---- C16 stacking order ----
ASSUMPTIONS["C16"] = [
    "three sibling blocks laid out by the real pipeline, each with symbolic position (static/relative), z-index (auto or -2..2), float (none/left) and opacity (1 or 0.5); the layers of the resulting stacking context are compared with CSS 2.1 Appendix E; VxH_C16_paint runs drawPage on a recording canvas (one token per Paint, named after the colour in use, opacity groups spliced in where composited) for html > body > (section, article > nav, aside) and compares the token sequence with Appendix E; pixel output, text, transforms and overflow clipping are not covered",
]
CLAIMS["C16"] = {
    "text": "For every combination of the symbolic style choices the solver-backed executor shows each box lands in the Appendix E layer it belongs to (negative z-index contexts ascending, in-flow blocks, floats, z-index 0/auto and opacity contexts in tree order, positive z-index ascending, ties in tree order), and that backgrounds, borders and outlines reach the canvas in Appendix E order with background < border < outline per box and everything of a translucent box inside its opacity group.",
    "design_ref": "DESIGN.md section 4 C16",
    "note": "Trusted: symgo, z3.",
}
H("C16", "html/document", "VxH_C16_layers", reach=["laid-out"], bounds="3 sibling blocks x {static,relative} x {z-index auto,-1,0,1}; the middle one optionally floated, the outer ones optionally translucent", quick={"maxsteps": 80000000, "time": "500s", "shards": 8})

# ---- C02 conservation of content ----
ASSUMPTIONS["C02"] = [
    "text-free documents: the content units are unsplittable blocks (custom elements of symbolic height that fit on a page) laid out by the real pipeline on 100px pages; real mode; nil font configuration",
    "text lines: one paragraph of one-word lines measured by text.VxAhem (metric-exact stand-in for the text engines) split over pages of symbolic height (VxH_C12_paragraph)",
    "draw-once at the backend, running/fixed elements and table header repetition are outside the claim",
]
CLAIMS["C02"] = {
    "text": "For symbolic block heights, an optional float and optional avoided breaks, and for a table row that is split over pages, the solver shows every unsplittable block is laid out on exactly one page, in document order: pagination neither loses nor duplicates it.",
    "design_ref": "DESIGN.md section 4 C02",
    "note": "Trusted: symgo, z3 nlsat.",
}
H("C02", "html/layout", "VxH_C02_blocks", mode="real", reach=["laid-out"], bounds="5 sibling blocks with heights in [10,90] on 100px pages; the second optionally floated; break-after auto/avoid on the third and fourth", quick={"maxsteps": 100000000, "time": "500s", "shards": 8})
H("C02", "html/layout", "VxH_C02_table_row", mode="real", reach=["laid-out"], bounds="one table row with two cells holding 2 and 4 blocks of heights in [10,60] on 100px pages", quick={"maxsteps": 100000000, "time": "500s", "shards": 8})

# ---- C11 lines (alignment arithmetic only) ----
ASSUMPTIONS["C11"] = [
    "the placement arithmetic of text-align for a line of symbolic width in a symbolic available width; and whole-pipeline line breaking of one paragraph in a container of symbolic width, where the text shaping engines (pango / go-text on font files, which this technique cannot encode) are replaced by text.VxAhem: every rune an em square of the font size, ascent 0.8 em, breaks after spaces and at preserved line feeds only, no bidi, hyphenation or shaping. What the real engines do with real fonts is outside the claim",
    "line-height other than the font size, inline-blocks and justification are not covered",
]
CLAIMS["C11"] = {
    "text": "For fully symbolic line and available widths and every combination of text-align, text-align-last, direction and last-line flag the solver shows the offset computed by textAlign is the start / end / centre placement CSS Text defines and keeps the content inside the available width. For a paragraph of 3..5 words (plain, pre-line with a line feed, with a padded inline box, nowrap, rtl) and every container width in [10, 200] px the lines hold every word once and in order, fit unless a single word, break only when the next word does not fit (plain text), have no leading / trailing space, are aligned as text-align says and stack without gap.",
    "design_ref": "DESIGN.md section 4 C11",
    "note": "Trusted: symgo, z3 nlsat, the VxAhem font model as a faithful client of the splitFirstLine contract.",
}
H("C11", "html/layout", "VxH_C11_align", mode="real", reach=["aligned"], bounds="line width and available width symbolic >= 0; text-align in {start,end,left,right,center}, text-align-last in {auto,...}, ltr/rtl, last-line flag")

# ---- C01 termination / no crash (guard mechanisms) ----
ASSUMPTIONS["C01"] = [
    "the whole-document statement (all HTML x CSS x fonts x text engines) is out of reach; the claim covers the anchored guard mechanisms: root element discovery, var() resolution, bookmark outline, counter-style cycles, content quotes, SVG gradient / pattern template cycles, and the no-panic obligation carried by every other harness of this suite (tokenizer, validators, selectors, tables, block layout on text-free documents)",
]
CLAIMS["C01"] = {
    "text": "Each guard mechanism is executed symbolically on its bounded input family and shown to return without panic; paths that exhaust the step/depth budget are replayed natively under a watchdog and reported as non-termination when the real code does not return either.",
    "design_ref": "DESIGN.md section 4 C01",
    "note": "Trusted: symgo, z3. Page-loop progress with real text, drawing and image decoding are not covered.",
}
H("C01", "html/tree", "VxH_C01_root", reach=["parsed"], bounds="documents starting with up to three pieces among {nothing, doctype, comment}, 3 body spellings, optional trailing comment")
H("C01", "html/tree", "VxH_C08_var", reach=["computed"], divergence=True, bounds="var() graphs, see C08", quick={"maxdepth": 250})
H("C01", "html/document", "VxH_C14_outline", reach=["built"], bounds="bookmark outline, see C14")
H("C01", "css/counters", "VxH_C19_cycles", reach=["terminated"], divergence=True, bounds="counter style extends / fallback graphs, see C19")
H("C17", "css/validation", "VxH_C17_validate", mode="real", reach=["angle", "translate-1", "translate-2", "scale-1", "scale-2", "matrix", "skew"], bounds="every CSS transform function with symbolic arguments in [-1000,1000]; angles in deg/grad/rad/turn; translations in px or %")
H("C07", "css/validation", "VxH_C07_validators", reach=["validated"], bounds="~125 property names x value of 0..1 (thorough 2) tokens over 12 token kinds with small contents", quick={"shards": 6}, thorough={"shards": 12, "time": "2400s", "maxpaths": 8000000})
H("C07", "css/validation", "VxH_C07_descriptors", reach=["counter-style", "font-face"], bounds="@font-face (9) and @counter-style (11) descriptor names x value of 0..2 tokens over 12 kinds", quick={"shards": 6})
H("C19", "html/boxes", "VxH_C19_scope", reach=["built"], bounds="body > x-a > x-a1, x-b, x-c; each element one of {nothing, counter-reset c 5, counter-set c 7, counter-increment c 2}; every element prints counters(c, '.')", quick={"maxsteps": 80000000, "shards": 6})
H("C01", "html/boxes", "VxH_C01_quotes", reach=["built"], bounds="body > x-a > x-b, x-c; ::before/::after of x-a and x-b and ::before of x-c each one of {nothing, open-quote, close-quote, no-open-quote, no-close-quote}; quotes with two pairs (thorough: also one pair)", quick={"maxsteps": 80000000, "shards": 6})
H("C09", "html/boxes", "VxH_C09_wellformed", reach=["built"], bounds="x-p > x-s > (text, x-i, text, x-j > x-k); display of x-p (2), x-s (6 incl. inline-grid / inline-flex / grid / flex; thorough 7), x-i (6; thorough all 19), x-j (4), x-k (2; thorough 4), float and position of x-i (2 each)", quick={"maxsteps": 80000000, "shards": 8}, thorough={"maxsteps": 80000000, "shards": 14})
H("C16", "html/document", "VxH_C16_paint", reach=["laid-out", "drawn"], bounds="html > body > (section, article > nav, aside), unique background / border / outline colours; section {static,relative} x {z auto,-1,1} x {opaque,translucent}; article {static,relative} x {z auto,1} x {float none,left}; aside {static,relative} x {z auto,-1,0,1} (thorough: x translucent)", quick={"maxsteps": 200000000, "time": "800s", "shards": 8}, thorough={"maxsteps": 200000000, "shards": 14})
for _p in ("C15", "C01", "C18"):
    H(_p, "svg", "VxH_C15_svg_templates", reach=["resolved"], bounds="three gradient definitions, href of each one of {none, #g0, #g1, #g2} (all 64 reference graphs, cycles included), visiting order of the definitions map a solver-chosen permutation in two independent runs", quick={"maxsteps": 80000000, "shards": 6})
H("C14", "svg", "VxH_C14_svg_dashes", mode="real", nonfinite_confirm=True, reach=["resolved", "pattern"], bounds="stroke-dasharray of 1..2 (thorough 3) px lengths and a px dash offset, all unbounded symbolic reals; paths with a float division by zero are decided by running their solver model natively")
H("C15", "text/hyphen", "VxH_C15_hyphen_shared", reach=["hyphenated", "has-break"], bounds="a word of 3..4 (thorough 5) symbolic ASCII letters, lower or upper case, against a hand-built dictionary with two non-standard (Hungarian style) and two plain patterns; two Hyphener values sharing the dictionary data", quick={"shards": 4})
H("C11", "html/layout", "VxH_C11_lines", mode="real", reach=["laid-out", "wrapped", "preserved-line-feed"], bounds="one paragraph of 3..5 words (plain with text-indent 0 / 20px, with a preserved line feed under pre-line, with a padded span under normal and pre-line, a span with a wide start spacing glued to following text, nowrap; thorough: rtl) x text-align left/right/center x container width a symbolic real in [10, 200] px; font model: every rune a 10px em square, breaks after spaces only (text.VxAhem stands in for the Pango / go-text engines)", quick={"maxsteps": 200000000, "shards": 6})
for _p in ("C12", "C02"):
    H(_p, "html/layout", "VxH_C12_paragraph", mode="real", reach=["laid-out", "paragraph-split", "conforming-break-exists"], bounds="one paragraph of 3..5 (thorough 6) one-word lines of 10px, orphans and widows in 1..3, page height a symbolic real in [15, 75] px; font model text.VxAhem", quick={"maxsteps": 200000000, "shards": 6})
H("C14", "html/document", "VxH_C14_write", mode="real", reach=["rendered", "written", "dangling-link"], bounds="three 10px sections on 100px pages, each with id A / B / none, the second and third optionally starting a new page, two <a> elements with href in {#A, #B, #missing, external} (quick: the third section A / none, the second link #A / #missing); zoom a symbolic real in [0.25, 4]; Render + Write on a recording backend.Document", quick={"maxsteps": 300000000, "time": "800s", "shards": 8})
H("C07", "css/validation", "VxH_C07_font", reach=["validated", "accepted"], bounds="font shorthand value of 0..3 (thorough 4) tokens over 14 kinds (style / weight / stretch / family keywords, 12px, 50%, 2, '/', ',', a string)", quick={"shards": 4})
H("C07", "html/tree", "VxH_C07_page_selectors", reach=["parsed", "accepted"], bounds="@page prelude of 0..3 (thorough 4) tokens over identifiers, ':', ',', white space, nth() with 10 argument lists, another function, a number, a hash", quick={"shards": 4})
for _p in ("C19", "C01"):
    H(_p, "css/counters", "VxH_C19_fallback_cycles", reach=["terminated", "user-style-renders"], bounds="2 (thorough 3) user styles, each fixed (1 symbol) / alphabetic (2 symbols) / additive (one weight 2) with range auto, fallback any of the user styles, decimal or a missing name; value 0..4", quick={"shards": 4})
H("C19", "css/counters", "VxH_C19_extends_merge", reach=["rendered"], bounds="a numeric base style (3 digits, range 1..3, pad 2, negative ~) extended by a style that declares or not each of range (unset / auto / two intervals), pad, negative, fallback; value -3..8")
H("C06", "css/parser", "VxH_C06_escape6", reach=["tokenized", "replaced", "kept"], bounds="backslash + six symbolic hexadecimal digits (either case) + a space: all 16^6 code point values at once", quick={"shards": 6})
H("C03", "css/selector", "VxH_C05_spec", reach=["done"], bounds="selector specificity composition (:is / :not / :has take their most specific argument), see C05")
H("C15", "html/document", "VxH_C16_paint", reach=["laid-out", "drawn"], bounds="html > body > (section, article > nav, aside), unique background / border / outline colours; section {static,relative} x {z auto,-1,1} x {opaque,translucent}; article {static,relative} x {z auto,1} x {float none,left}; aside {static,relative} x {z auto,-1,0,1} (thorough: x translucent)", quick={"maxsteps": 200000000, "time": "800s", "shards": 8}, thorough={"maxsteps": 200000000, "shards": 14})
H("C04", "html/tree", "VxH_C04_initial_computed", reach=["computed", "recomputed"], bounds="the 18 properties whose initial value needs computing x {root, child}, with solid border / outline / column-rule styles and float: left in force")
H("C07", "css/validation", "VxH_C07_gradients", reach=["validated", "accepted"], bounds="4 gradient functions x 2 (thorough 4) properties x first argument of 0..4 values over 6 kinds (thorough 13: direction / shape keywords, 45deg, 1px, 10%, 0), then two colour stops", quick={"shards": 6}, thorough={"shards": 14, "maxpaths": 4000000})
H("C12", "html/layout", "VxH_C12_named_pages", reach=["laid-out", "same-page-name", "page-name-changes"], bounds="two sections each holding one 10px block with page: auto / a / b; a float or absolutely positioned box optionally ending the first section and starting the second; @page a and @page b with their own sizes", quick={"maxsteps": 100000000, "shards": 6})
H("C13", "html/layout", "VxH_C13_fixed_auto_column", mode="real", reach=["laid-out", "fits", "too-narrow"], bounds="fixed layout, one row of two cells with symbolic widths in [0,150] and one cell without a width; table width in [20,300], border-spacing in [0,20] (all symbolic reals)", quick={"maxsteps": 100000000})
H("C14", "html/document", "VxH_C14_border_image", mode="real", nonfinite_confirm=True, reach=["laid-out", "drawn"], bounds="one block with a 10px border and a linear-gradient border image; border-image-slice in 8 values (0, 0%, mixed, fill, 100%), 4 repeat modes, content width and height symbolic reals in [0,100]; paths with a float division by zero are decided by running their solver model natively", quick={"maxsteps": 200000000, "shards": 8})
H("C18", "svg", "VxH_C18_arc_center", mode="real", reach=["centre"], bounds="arc from the origin to a symbolic end point in [-100,100]^2, rx symbolic in [1,100], ry/rx in {1, 2, 1/2}, both flags, x-axis-rotation 0; exact reals with sqrt axiomatised", quick={"solverms": 60000})
H("C02", "html/layout", "VxH_C02_nested_padding", mode="real", reach=["laid-out", "split"], bounds="a block, then a section with three child blocks and a symbolic bottom padding in [0,40] and optional bottom border in [1,20], then a block; heights in [10,60] on 100px pages", quick={"maxsteps": 100000000, "time": "600s", "shards": 8})
H("C15", "text", "VxH_C15_lang_quotes", reach=["looked-up"], bounds="GetLangQuotes on the real entries of 4 related keys ('', fr, fr_CH, de) for 5 language tags; every visiting order of that sub-table in two independent runs (the full table of ~120 entries is out of reach of permutation)", quick={"shards": 4})
H("C19", "css/counters", "VxH_C19_explicit_range_zero", reach=["rendered"], bounds="symbolic / alphabetic styles of 2 symbols with the explicit range -10..10; value -6..6")
H("C07", "html/boxes", "VxH_C07_span_attributes", reach=["read"], bounds="colspan / rowspan / span attribute text of 0..5 (thorough 8) symbolic printable ASCII bytes", quick={"shards": 6})
for _p in ("C01", "C16"):
    H(_p, "html/document", "VxH_C01_draw_inline_levels", reach=["laid-out", "drawn"], bounds="<p><x-i><x-c></x-c></x-i></p>: x-i display in 8 values (inline-block / -flex / -grid / -table, inline, block, flex, grid) x 5 stacking situations (none, relative, opacity, relative + z-index, float); layout with the VxAhem font model, painting on the recording canvas", quick={"maxsteps": 200000000, "shards": 6})
for _p in ("C15", "C14"):
    H(_p, "html/document", "VxH_C15_repaint_page", reach=["laid-out", "drawn"], bounds="one page with marks in {none, crop, cross, crop cross}, bleed 0 / 10px, page background or not; painted three times. The crop / cross marks are drawn through text/template, which the engine cannot execute: those 12 inputs are run natively only", native_fallback=["unsupported"], quick={"maxsteps": 200000000})
H("C02", "html/layout", "VxH_C02_footnotes", reach=["laid-out", "several-pages"], bounds="a paragraph with 2..4 (thorough 5) footnotes (float: footnote), on one line or one per line, @footnote max-height in 7 values (2px .. 40px, none), 100px pages; VxAhem font model", quick={"maxsteps": 300000000, "shards": 6})
for _p in ("C04", "C01"):
    H(_p, "html/layout", "VxH_C04_ex_ch", reach=["laid-out"], bounds="a paragraph in a 10px body with one of 7 declarations using ex / ch (font-size, width, tab-size, hyphenate-limit-zone, margin); font configuration: VxAhem (x-height 0.8 em, '0' advance 1 em)", quick={"maxsteps": 100000000, "maxdepth": 2000})
H("C08", "css/validation", "VxH_C08_important_comments", reach=["validated"], bounds="3 declarations x 5 separators (nothing, space, comment, mixed) before '!', after '!' and after 'important' x 3 spellings, parsed from source text with comments kept (as the style pipeline does)", quick={"shards": 4})
H("C04", "html/tree", "VxH_C04_font_size_steps", mode="real", reach=["computed", "within-table"], bounds="parent font size a symbolic real in [1,100] px, child font-size smaller / larger")
H("C09", "html/boxes", "VxH_C09_table_parts", reach=["built"], bounds="x-p > x-j > (x-k, x-i): x-j one of 7 parents (table, inline-table, block, inline, table-row, table-row-group, flex), x-k and x-i one of 9 table parts / inline / block", quick={"maxsteps": 80000000, "shards": 8})
H("C10", "html/layout", "VxH_C10_box_sizing_height", mode="real", reach=["laid-out"], bounds="one empty block with symbolic vertical / horizontal paddings and borders, box-sizing in 3 values, one of height / min-height / max-height (under height: 300px) symbolic in [0,150]", quick={"maxsteps": 100000000, "shards": 4})
H("C12", "html/layout", "VxH_C12_avoid_paragraph", mode="real", reach=["laid-out", "break-between-the-paragraphs"], bounds="a paragraph of 3..5 one-word lines followed by a 2-line paragraph with break-before auto / avoid, orphans = widows = 2, page height a symbolic real in [25,75] px; VxAhem font model", quick={"maxsteps": 200000000, "shards": 6})
H("C13", "html/layout", "VxH_C13_auto_percent", mode="real", nonfinite_confirm=True, reach=["laid-out"], bounds="auto layout, 2 rows x 3 columns: two percentage columns (symbolic in [10,90]%) under a colspan-2 cell holding a 400px block, a third column of 20px content; symbolic border spacing; paths with a float division by zero are decided natively", quick={"maxsteps": 150000000, "shards": 4})
H("C14", "html/document", "VxH_C14_zero_size_boxes", mode="real", nonfinite_confirm=True, reach=["laid-out", "drawn"], bounds="one block with a background, overflow visible / hidden, border-radius 0 / 5px, no border / top border / four borders of 6 styles; content width and height each in {0, 3, 10} px", quick={"maxsteps": 200000000, "shards": 8})
H("C16", "html/document", "VxH_C16_nested_order", reach=["laid-out", "drawn"], bounds="html > body > section > (article, nav, aside): section static / relative (z-index auto), each child static / absolute / absolute with z-index 0; unique colours", quick={"maxsteps": 200000000, "shards": 6})
H("C17", "svg", "VxH_C17_svg_apply_transform", mode="real", reach=["applied", "invertible", "singular"], bounds="SVG transform lists matrix(a b c d e f), translate scale, scale translate with every number a symbolic real in [-10,10]")
for _p in ("C01", "C10"):
    H(_p, "html/layout", "VxH_C01_floats", mode="real", reach=["laid-out"], bounds="two left floats in a 200px container: the first 150px wide with symbolic height in [0,20] and margin-bottom in [-20,5] (margin box height >= 0), the second with symbolic width in [10,190]; then a block", quick={"maxsteps": 30000000, "shards": 4})
H("C02", "html/layout", "VxH_C02_line_floats", reach=["laid-out"], bounds="two block floats (the second 80 / 150px wide, 5 / 15 / 50px high) followed by a paragraph 'xx <tall span> <float> zz' in a 200px body; tall span font size 10 / 20 / 30px, line float width 20 / 100 / 190px; VxAhem font model", quick={"maxsteps": 200000000, "shards": 6})
H("C15", "html/layout", "VxH_C15_broken_floats", reach=["laid-out", "all-floats-continue"], bounds="2..3 left floats of two 60px blocks each on 100px pages (every float is broken by the first page break); the map of broken out-of-flow boxes visited in every order, two independent runs", quick={"maxsteps": 300000000, "shards": 4})
H("C02", "html/layout", "VxH_C02_broken_float", reach=["laid-out"], bounds="a left float holding 2..3 blocks of 60px on 100px pages, followed or not by in-flow content", quick={"maxsteps": 200000000})
H("C19", "html/boxes", "VxH_C19_li_value", reach=["built"], bounds="<ol start=none/5/0><li><li value=none/7/-2><li></ol> and <ul value=none/9>, presentational hints on; the marker texts", quick={"maxsteps": 100000000})
H("C20", "css/parser", "VxH_C20_pairs_cdc", reach=["reparsed"], bounds="any single token from 1..2 (thorough 3) source bytes followed by the CDC token")
H("C18", "svg", "VxH_C18_path_details", reach=["parsed"], bounds="an arc command (absolute / relative) with two argument groups, end points from small sets; a number with an upper-case exponent")
H("C18", "svg", "VxH_C18_rect_radii", reach=["built"], bounds="<rect> with rx, ry each absent or one of three numbers")
H("C18", "svg", "VxH_C18_value_units", reach=["parsed"], bounds="4 numbers x the 11 SVG length units x optional space")
H("C16", "html/document", "VxH_C16_page_order", reach=["laid-out", "drawn"], bounds="page with / without background and border, canvas background from html, body or none, one coloured block", quick={"maxsteps": 200000000})
for _p in ("C01", "C02"):
    H(_p, "html/layout", "VxH_C01_table_row_avoid", mode="real", reach=["laid-out"], bounds="a table of two rows (two blocks, one block) with symbolic heights in [10,90] on 100px pages; tr break-inside auto / avoid", quick={"maxsteps": 60000000, "time": "500s", "shards": 4})
H("C12", "html/layout", "VxH_C02_nested_padding", mode="real", reach=["laid-out", "split"], bounds="a block, then a section with three child blocks and a symbolic bottom padding in [0,40] and optional bottom border in [1,20], then a block; heights in [10,60] on 100px pages", quick={"maxsteps": 100000000, "time": "600s", "shards": 8})
H("C13", "html/layout", "VxH_C13_auto_span_min", mode="real", reach=["laid-out"], bounds="auto layout in a container of symbolic width [20,300]: a colspan-2 cell with symbolic horizontal padding [0,80] over two cells of symbolic width [0,200]", quick={"maxsteps": 150000000, "shards": 4})
H("C14", "utils", "VxH_C14_metadata", reach=["extracted", "not-a-standard-name"], bounds="<meta name> among 11 spellings (ASCII case variants, U+212A / U+0130 / U+017F look-alikes, other names) x 2 contents")
H("C19", "html/boxes", "VxH_C19_descriptors_from_css", reach=["built"], bounds="@counter-style (numeric over ten letters) with negative: prefix suffix / prefix only, range: infinite 5 / 0 infinite; counter value in {-12, -2, 3, 7}", quick={"maxsteps": 100000000})
H("C04", "html/tree", "VxH_C04_image_orientation", reach=["computed"], bounds="image-orientation of -6..6 quarter turns")
H("C14", "utils", "VxH_C14_w3c_date", reach=["parsed"], bounds="W3C date-time with a time zone designator: sign x hours {0,1,5,11} x minutes {0,15,30,45}")
H("C03", "html/tree", "VxH_C03_media", reach=["computed"], bounds="11 media lists (case variants of print / all / screen, lists, empty) in the media attribute of <style> or in an @media rule; print rendering", quick={"maxsteps": 100000000})
H("C17", "html/document", "VxH_C17_get_matrix", mode="real", reach=["computed"], bounds="getMatrix on a block box of symbolic geometry (position, margins, paddings, borders, width, height >= 0) with a list of 0..2 computed transform functions (translate px / %, scale, rotate, skew, matrix; all arguments symbolic reals) and a symbolic transform-origin in px or %", quick={"shards": 6})
H("C17", "html/document", "VxH_C17_painter_transform", mode="real", reach=["laid-out", "drawn"], bounds="CSS source to backend: a 20px high block of symbolic width in [10, 80] with one of 9 (thorough 11) transform declarations (translate px / %, scale, rotate, skewX, skewY, matrix, two- and three-function lists; concrete arguments) x 4 transform-origin values; the single Transform call of the painter compared (tolerance 1e-3) with the specification matrix", quick={"shards": 6})
