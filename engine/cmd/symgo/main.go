// Command symgo explores harness functions of a Go package symbolically.
package main

import (
	"encoding/json"
	"flag"
	"fmt"
	"os"
	"path/filepath"
	"runtime/pprof"
	"strings"
	"time"

	"symgo/interp"
)

func main() {
	if len(os.Args) < 2 {
		fmt.Fprintln(os.Stderr, "usage: symgo run [flags]")
		os.Exit(2)
	}
	switch os.Args[1] {
	case "run":
		run(os.Args[2:])
	default:
		fmt.Fprintln(os.Stderr, "unknown command", os.Args[1])
		os.Exit(2)
	}
}

func run(args []string) {
	fs := flag.NewFlagSet("run", flag.ExitOnError)
	repo := fs.String("repo", "/repo", "module root")
	pkg := fs.String("pkg", "", "package directory relative to the module root (e.g. css/counters)")
	harnessDir := fs.String("harness", "/verif/harness", "root of harness files")
	names := fs.String("h", "", "comma-separated harness function names (default: all VxH_*)")
	out := fs.String("out", "", "report JSON path")
	work := fs.String("work", "/verif/.work", "scratch directory")
	maxPaths := fs.Int("maxpaths", 200000, "path limit")
	maxSteps := fs.Int64("maxsteps", 5_000_000, "step budget per path")
	maxDepth := fs.Int("maxdepth", 400, "call depth budget")
	solver := fs.String("solver", "z3-new", "z3 | z3-new | cvc5")
	solverMs := fs.Int("solverms", 20000, "per-query solver timeout (ms)")
	timeLimit := fs.Duration("time", 10*time.Minute, "wall-clock limit per harness")
	trace := fs.Bool("trace", false, "trace instructions")
	slog := fs.String("solverlog", "", "write SMT-LIB traffic here")
	keep := fs.Int("keep", 20, "sample paths kept in the report")
	tier := fs.Int("tier", 0, "0 quick, 1 thorough (read by harnesses through vx.Tier)")
	shard := fs.Int("shard", 0, "shard index")
	shards := fs.Int("shards", 1, "number of shards")
	shardDepth := fs.Int("sharddepth", 6, "decisions hashed for sharding")
	frontier := fs.Int("frontier", 0, "explore breadth-first until this many prefixes are queued, then stop and report them")
	prefixFile := fs.String("prefixes", "", "JSON file with a list of decision prefixes to start from")
	cpuprof := fs.String("cpuprofile", "", "write a CPU profile")
	fs.Parse(args)
	if *cpuprof != "" {
		f, _ := os.Create(*cpuprof)
		pprof.StartCPUProfile(f)
		defer pprof.StopCPUProfile()
	}

	modDir := filepath.Join(*work, fmt.Sprintf("mod_%d", os.Getpid()))
	os.MkdirAll(modDir, 0o755)
	defer os.RemoveAll(modDir)
	modFile := filepath.Join(modDir, "go.mod")
	copyFile(filepath.Join(*repo, "go.mod"), modFile)
	copyFile(filepath.Join(*repo, "go.sum"), filepath.Join(modDir, "go.sum"))

	overlay := map[string][]byte{}
	addDir := func(src, dst string) {
		ents, _ := os.ReadDir(src)
		for _, e := range ents {
			if e.IsDir() || !strings.HasSuffix(e.Name(), ".go") {
				continue
			}
			data, err := os.ReadFile(filepath.Join(src, e.Name()))
			if err != nil {
				continue
			}
			name := e.Name()
			if !strings.HasPrefix(name, "zz_vx_") {
				name = "zz_vx_" + name
			}
			overlay[filepath.Join(dst, name)] = data
		}
	}
	addDir(filepath.Join(*harnessDir, "vx"), filepath.Join(*repo, "vx"))
	// harness files for every package directory present under harnessDir
	filepath.Walk(*harnessDir, func(p string, info os.FileInfo, err error) error {
		if err != nil || !info.IsDir() {
			return nil
		}
		rel, _ := filepath.Rel(*harnessDir, p)
		if rel == "." || rel == "vx" {
			return nil
		}
		addDir(p, filepath.Join(*repo, rel))
		return nil
	})

	var sess *interp.Session
	var err error
	var dropped []string
	for attempt := 0; attempt < 6; attempt++ {
		sess, err = interp.Load(interp.LoadOptions{RepoDir: *repo, Pattern: "./" + *pkg, Overlay: overlay, ModFile: modFile, Tags: "verif"})
		if err == nil {
			break
		}
		// a harness file that no longer type-checks against this tree must not take the others down:
		// drop the overlay files named in the errors and try again
		removed := false
		for path := range overlay {
			if strings.Contains(err.Error(), path+":") && !strings.Contains(path, "/vx/") {
				delete(overlay, path)
				for _, l := range strings.Split(err.Error(), "\n") {
					if strings.Contains(l, path+":") {
						fmt.Fprintln(os.Stderr, "symgo:   ", l)
					}
				}
				dropped = append(dropped, path)
				removed = true
			}
		}
		if !removed {
			break
		}
	}
	for _, d := range dropped {
		fmt.Fprintln(os.Stderr, "symgo: harness file skipped (does not compile against this tree):", d)
	}
	os.RemoveAll(modDir)
	if err != nil {
		fmt.Fprintln(os.Stderr, "symgo: load:", err)
		os.Exit(3)
	}
	fmt.Fprintf(os.Stderr, "symgo: loaded %s in %.1fs\n", *pkg, sess.LoadS)
	if err := sess.RunInit(); err != nil {
		fmt.Fprintln(os.Stderr, "symgo:", err)
		os.Exit(3)
	}
	fmt.Fprintf(os.Stderr, "symgo: init in %.1fs\n", sess.InitS)

	var hs []string
	if *names != "" {
		hs = strings.Split(*names, ",")
	} else {
		hs = sess.HarnessNames("VxH_")
	}
	cfg := interp.Config{MaxPaths: *maxPaths, MaxSteps: *maxSteps, MaxDepth: *maxDepth, SolverKind: *solver,
		SolverTimeMs: *solverMs, TimeLimit: *timeLimit, Trace: *trace, SolverLog: *slog, KeepPaths: *keep,
		Tier: *tier, Shard: *shard, Shards: *shards, ShardDepth: *shardDepth}
	cfg.FrontierMin = *frontier
	if *prefixFile != "" {
		data, err := os.ReadFile(*prefixFile)
		if err == nil {
			json.Unmarshal(data, &cfg.Prefixes)
		}
		if len(cfg.Prefixes) == 0 {
			// nothing to do for this worker
			res := map[string]interface{}{"package": *pkg, "reports": []*interp.Report{{Harness: hs[0], ByStatus: map[string]int{}, Reach: map[string]int{}, Asserts: map[string]int{}}}}
			data, _ := json.MarshalIndent(res, "", " ")
			os.WriteFile(*out, data, 0o644)
			return
		}
	}
	var reports []*interp.Report
	for _, h := range hs {
		rep, err := sess.Explore(h, cfg)
		if err != nil {
			fmt.Fprintln(os.Stderr, "symgo:", err)
			os.Exit(3)
		}
		fmt.Fprintf(os.Stderr, "symgo: %s: %d paths %v, %d violations, %d inconclusive, %d queries (%.1fs solver), %.1fs\n",
			h, rep.Paths, rep.ByStatus, len(rep.Violations), len(rep.Inconclusive), rep.SolverQueries, rep.SolverTimeS, rep.WallS)
		reports = append(reports, rep)
	}
	res := map[string]interface{}{"package": *pkg, "load_s": sess.LoadS, "init_s": sess.InitS, "reports": reports}
	data, _ := json.MarshalIndent(res, "", " ")
	if *out != "" {
		os.WriteFile(*out, data, 0o644)
	} else {
		os.Stdout.Write(data)
	}
}

func copyFile(src, dst string) {
	data, err := os.ReadFile(src)
	if err == nil {
		os.WriteFile(dst, data, 0o644)
	}
}
