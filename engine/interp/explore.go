package interp

import (
	"fmt"
	"go/types"
	"math/big"
	"os"
	"runtime"
	"runtime/debug"
	"sort"
	"strings"
	"time"

	"golang.org/x/tools/go/ssa"
	"symgo/smt"
	"symgo/sym"
)

type decision struct {
	cond   *sym.Term
	val    bool
	forced bool // the other side was infeasible: implied by the path condition, not asserted
}

type workItem struct {
	prefix []decision
	model  sym.Model
}

// Event is one observable step of a harness run (part of the replay digest).
type Event struct {
	Kind  string `json:"kind"` // reach | assert | observe
	Label string `json:"label"`
	OK    bool   `json:"ok,omitempty"`
	Value string `json:"value,omitempty"`
	term  *sym.Term
	kind  types.BasicKind
}

// Input is a symbolic input created by the harness.
type Input struct {
	ID   string `json:"id"`
	Kind string `json:"kind"` // int | byte | bool | f32 | f64 | choose
	Lo   int64  `json:"lo,omitempty"`
	Hi   int64  `json:"hi,omitempty"`
	term *sym.Term
}

// PathResult describes one explored path.
type PathResult struct {
	Status    string             `json:"status"`
	Detail    string             `json:"detail,omitempty"`
	Decisions int                `json:"decisions"`
	Steps     int64              `json:"steps"`
	Events    []Event            `json:"events,omitempty"`
	Inputs    map[string]string  `json:"inputs,omitempty"`
	InputsF   map[string]float64 `json:"inputs_float,omitempty"`
	PanicMsg  string             `json:"panic,omitempty"`
	Where     string             `json:"where,omitempty"`
	Violation string             `json:"violation,omitempty"` // assertion label or panic site
}

// Config bounds an exploration.
type Config struct {
	MaxPaths      int
	MaxSteps      int64
	MaxDepth      int
	SolverKind    string
	SolverTimeMs  int
	TimeLimit     time.Duration
	Trace         bool
	SolverLog     string
	Tier          int
	Shard, Shards int // explore only prefixes whose hash falls in this shard (after ShardDepth decisions)
	ShardDepth    int
	KeepPaths     int      // keep at most this many ok-path records (violations always kept)
	FrontierMin   int      // breadth-first until the queue holds this many prefixes, then stop and return them
	Prefixes      []string // start from these decision prefixes (t/f free, T/F forced) instead of the root
}

// Report is the outcome of exploring one harness.
type Report struct {
	Harness       string         `json:"harness"`
	Paths         int            `json:"paths"`
	Decisions     int            `json:"decisions"`
	ByStatus      map[string]int `json:"by_status"`
	Reach         map[string]int `json:"reach"`
	Asserts       map[string]int `json:"asserts"`
	Violations    []PathResult   `json:"violations"`
	Inconclusive  []PathResult   `json:"inconclusive"`
	Samples       []PathResult   `json:"samples"`
	SolverQueries int            `json:"solver_queries"`
	SolverTimeS   float64        `json:"solver_time_s"`
	ModelTimeS    float64        `json:"model_time_s"`
	SolverErrors  int            `json:"solver_errors"`
	SolverUnknown int            `json:"solver_unknown"`
	WallS         float64        `json:"wall_s"`
	Functions     []string       `json:"functions_encoded"`
	Inputs        []Input        `json:"inputs"`
	Truncated     bool           `json:"truncated"`
	TruncatedWhy  string         `json:"truncated_why,omitempty"`
	MaxStepsSeen  int64          `json:"max_steps_seen"`
	MaxDepthSeen  int            `json:"max_depth_seen"`
	Assumptions   []string       `json:"assumptions,omitempty"`
	QueueLeft     int            `json:"queue_left"`
	Frontier      []string       `json:"frontier,omitempty"`
}

type explorer struct {
	i      *interpreter
	solver *smt.Solver
	cfg    Config
	queue  []workItem

	prefix      []decision
	pos         int
	trace       []decision
	pcSet       map[*sym.Term]bool
	model       sym.Model
	inputs      []*Input
	inputByID   map[string]*Input
	events      []Event
	unknownHere bool
	modelValid  bool

	mapOrderSymbolic bool
	mapOrderIn       string // when set, only range statements in functions whose name contains it
	permCount        int

	allInputs map[string]Input
	unknowns  int
}

func (ex *explorer) addPC(t *sym.Term) {
	ex.solver.Assert(t)
	ex.noteTrue(t)
}

// noteTrue records t (and its obvious consequences) as known on this path.
func (ex *explorer) noteTrue(t *sym.Term) {
	if ex.pcSet[t] {
		return
	}
	ex.pcSet[t] = true
	switch t.Op {
	case sym.OAnd:
		for _, a := range t.Args {
			ex.noteTrue(a)
		}
	case sym.ONot:
		if o := t.Args[0]; o.Op == sym.OOr {
			for _, a := range o.Args {
				ex.noteTrue(sym.Not(a))
			}
		}
	}
}

// check asks whether pc ∧ t is satisfiable; on Sat it returns a model of the inputs.
func (ex *explorer) check(t *sym.Term) (smt.Result, sym.Model) {
	ex.solver.Define(t)
	ex.solver.Push()
	ex.solver.AssertRef(t)
	r := ex.solver.Check()
	var m sym.Model
	if r == smt.Sat {
		m = ex.solver.Model(ex.inputTerms())
	}
	if ex.solver.Dead {
		ex.unknowns++
		panic(pathEnd{status: stSolverUnkown, detail: "solver stopped answering and was restarted: " + ex.solver.LastError})
	}
	ex.solver.Pop()
	if r == smt.Unknown {
		ex.unknowns++
	}
	return r, m
}

func (ex *explorer) inputTerms() []*sym.Term {
	ts := make([]*sym.Term, 0, len(ex.inputs))
	for _, in := range ex.inputs {
		ts = append(ts, in.term)
	}
	return ts
}

func (ex *explorer) record(c *sym.Term, v bool, forced bool) {
	ex.trace = append(ex.trace, decision{c, v, forced})
	t := c
	if !v {
		t = sym.Not(c)
	}
	if forced {
		ex.noteTrue(t)
	} else {
		ex.addPC(t)
	}
}

func (ex *explorer) enqueue(c *sym.Term, v bool, m sym.Model) {
	p := make([]decision, len(ex.trace)+1)
	copy(p, ex.trace)
	p[len(ex.trace)] = decision{c, v, false}
	ex.queue = append(ex.queue, workItem{prefix: p, model: m})
}

func (ex *explorer) decide(c *sym.Term) bool {
	if ex.pcSet[c] {
		return true
	}
	if ex.pcSet[sym.Not(c)] {
		return false
	}
	if ex.pos < len(ex.prefix) {
		d := ex.prefix[ex.pos]
		if d.cond != nil && d.cond != c {
			panic(pathEnd{status: stEngineError, detail: fmt.Sprintf("non-deterministic replay at decision %d: expected %.120s got %.120s", ex.pos, d.cond, c)})
		}
		ex.pos++
		ex.record(c, d.val, d.forced)
		return d.val
	}
	if !ex.modelValid {
		// prefix came without a model (frontier hand-over): obtain one for the current path condition
		ex.solver.Push()
		if ex.solver.Check() == smt.Sat {
			ex.model = ex.solver.Model(ex.inputTerms())
		} else {
			ex.model = nil
		}
		ex.solver.Pop()
		ex.modelValid = ex.model != nil
	}
	var mv *sym.Term
	if ex.model != nil && ex.modelValid {
		mv = sym.Eval(c, ex.model)
	}
	if mv != nil {
		side := mv.IsTrue()
		other := c
		if side {
			other = sym.Not(c)
		}
		r, m2 := ex.check(other)
		switch r {
		case smt.Sat:
			ex.enqueue(c, !side, m2)
		case smt.Unknown:
			ex.unknownHere = true
		}
		ex.record(c, side, r == smt.Unsat)
		return side
	}
	r1, m1 := ex.check(c)
	if r1 == smt.Unsat {
		ex.record(c, false, true)
		return false
	}
	r2, m2 := ex.check(sym.Not(c))
	if r1 == smt.Sat {
		if r2 == smt.Sat {
			ex.enqueue(c, false, m2)
		} else if r2 == smt.Unknown {
			ex.unknownHere = true
		}
		if m1 != nil {
			ex.model = m1
			ex.modelValid = true
		}
		ex.record(c, true, r2 == smt.Unsat)
		return true
	}
	// r1 unknown
	ex.unknownHere = true
	if r2 == smt.Sat {
		if m2 != nil {
			ex.model = m2
			ex.modelValid = true
		}
		ex.record(c, false, false)
		return false
	}
	panic(pathEnd{status: stSolverUnkown, detail: "solver could not decide a branch"})
}

func (ex *explorer) assume(c *sym.Term) {
	if ex.pcSet[c] {
		return
	}
	if ex.pos < len(ex.prefix) && !ex.modelValid {
		// replaying a model-less prefix: assumptions held when the prefix was recorded
		ex.addPC(c)
		return
	}
	if ex.model != nil && ex.modelValid {
		if mv := sym.Eval(c, ex.model); mv != nil && mv.IsTrue() {
			ex.addPC(c)
			return
		}
	}
	r, m := ex.check(c)
	switch r {
	case smt.Sat:
		ex.model = m
		ex.modelValid = m != nil
		ex.addPC(c)
	case smt.Unsat:
		panic(pathEnd{status: stAssumeFalse})
	default:
		panic(pathEnd{status: stSolverUnkown, detail: "solver could not decide an assumption"})
	}
}

// permute picks an arbitrary order of keys through symbolic choices.
func (ex *explorer) permute(fr *frame, keys []value) []value {
	rest := append([]value(nil), keys...)
	var out []value
	for len(rest) > 1 {
		ex.permCount++
		id := fmt.Sprintf("maporder_%d", ex.permCount)
		c := ex.newInput(fr, id, "choose", types.Int, 0, int64(len(rest)-1))
		k, _ := fr.concretize(c, 0, int64(len(rest)-1))
		out = append(out, rest[k])
		rest = append(rest[:k:k], rest[k+1:]...)
	}
	return append(out, rest...)
}

func sortTag(so sym.Sort) string {
	switch so.K {
	case sym.KBool:
		return "_b"
	case sym.KBV:
		return fmt.Sprintf("_bv%d", so.W)
	case sym.KInt:
		return "_i"
	}
	return "_r"
}

func sanitize(id string) string {
	var sb strings.Builder
	sb.WriteString("in_")
	for _, r := range id {
		if (r >= 'a' && r <= 'z') || (r >= 'A' && r <= 'Z') || (r >= '0' && r <= '9') || r == '_' {
			sb.WriteRune(r)
		} else {
			fmt.Fprintf(&sb, "_%x_", r)
		}
	}
	return sb.String()
}

// newInput creates (or, within a run, returns) the symbolic input id.
func (ex *explorer) newInput(fr *frame, id, kind string, k types.BasicKind, lo, hi int64) value {
	if in, ok := ex.inputByID[id]; ok {
		return mkScalar(in.term, k)
	}
	var so sym.Sort
	switch kind {
	case "bool":
		so = sym.Bool
	case "int", "choose":
		so = sym.BV(kindBits(k))
	case "intm":
		so = sym.Int
	case "f32", "f64":
		so = sym.Real
		ex.solver.UseNRA = true
	}
	t := sym.Var(sanitize(id)+sortTag(so), so)
	in := &Input{ID: id, Kind: kind, Lo: lo, Hi: hi, term: t}
	ex.inputs = append(ex.inputs, in)
	ex.inputByID[id] = in
	ex.allInputs[id] = *in
	ex.solver.Define(t)
	if ex.model != nil {
		if _, ok := ex.model[t]; !ok {
			switch so.K {
			case sym.KBool:
				ex.model[t] = sym.False
			case sym.KBV:
				ex.model[t] = sym.BVConst(so.W, uint64(lo))
			case sym.KInt:
				ex.model[t] = sym.IntConst(lo)
			case sym.KReal:
				ex.model[t] = sym.RealConst(new(big.Rat))
			}
		}
	}
	switch kind {
	case "int", "choose":
		full := false
		if kindSigned(k) {
			flo, fhi := kindRange(k)
			full = big.NewInt(lo).Cmp(flo) == 0 && big.NewInt(hi).Cmp(fhi) == 0
		} else {
			_, fhi := kindRange(k)
			full = lo == 0 && new(big.Int).SetUint64(uint64(hi)).Cmp(fhi) == 0
		}
		if !full {
			w := kindBits(k)
			var c *sym.Term
			if kindSigned(k) {
				c = sym.And(sym.BVCmp(sym.OBVSle, sym.BVConst(w, uint64(lo)), t), sym.BVCmp(sym.OBVSle, t, sym.BVConst(w, uint64(hi))))
			} else {
				c = sym.And(sym.BVCmp(sym.OBVUle, sym.BVConst(w, uint64(lo)), t), sym.BVCmp(sym.OBVUle, t, sym.BVConst(w, uint64(hi))))
			}
			ex.assume(c)
		}
	case "intm":
		sym.VarRange[t] = [2]*big.Int{big.NewInt(lo), big.NewInt(hi)}
		ex.assume(sym.And(sym.Le(sym.IntConst(lo), t), sym.Le(t, sym.IntConst(hi))))
	}
	return mkScalar(t, k)
}

func panicCategory(msg string) string {
	switch {
	case strings.Contains(msg, "index out of range"):
		return "index out of range"
	case strings.Contains(msg, "slice bounds out of range"):
		// Go leaves the evaluation order of `x, s = s[n-1], s[:n-1]` open: one category for both
		return "index out of range"
	case strings.Contains(msg, "nil pointer dereference"), strings.Contains(msg, "nil map"):
		return "nil dereference"
	case strings.Contains(msg, "divide by zero"):
		return "integer divide by zero"
	case strings.Contains(msg, "interface conversion"):
		return "interface conversion"
	case strings.Contains(msg, "negative shift"):
		return "negative shift amount"
	case strings.Contains(msg, "makeslice"):
		return "makeslice"
	}
	return "panic: " + msg
}

func (ex *explorer) where() string {
	// innermost frame that belongs to the module under test
	var parts []string
	for fr := ex.i.curFrame; fr != nil && len(parts) < 6; fr = fr.caller {
		parts = append(parts, fr.fn.String())
	}
	return strings.Join(parts, " < ")
}

// runOne executes the harness once along item's prefix.
func (ex *explorer) runOne(entry *ssa.Function, item workItem) (res PathResult) {
	i := ex.i
	ex.prefix, ex.pos = item.prefix, 0
	ex.trace = ex.trace[:0]
	ex.pcSet = map[*sym.Term]bool{}
	ex.model = sym.Model{}
	for k, v := range item.model {
		ex.model[k] = v
	}
	ex.modelValid = item.model != nil || len(item.prefix) == 0
	ex.inputs = nil
	ex.inputByID = map[string]*Input{}
	ex.events = nil
	ex.unknownHere = false
	ex.permCount = 0
	ex.mapOrderSymbolic = false
	ex.mapOrderIn = ""
	i.steps = 0
	i.curFrame = nil
	i.undoOn = true
	ex.solver.BeginRun()
	defer func() {
		if p := recover(); p != nil {
			res.Where = ex.where()
			switch p := p.(type) {
			case pathEnd:
				res.Status = statusNames[p.status]
				res.Detail = p.detail
			case targetPanic:
				res.Status = "panic"
				res.PanicMsg = "panic: " + panicString(p.v)
			case rtPanic:
				res.Status = "panic"
				res.PanicMsg = string(p)
			case runtime.Error:
				res.Status = "engine-error"
				res.Detail = p.Error() + "\n" + shortStack()
			default:
				res.Status = "engine-error"
				res.Detail = fmt.Sprint(p) + "\n" + shortStack()
			}
		}
		i.curFrame = nil
		if ex.solver.Dead {
			ex.solver.Restart()
		} else {
			ex.finish(&res)
		}
		ex.solver.EndRun()
		i.rollback()
		i.undoOn = false
	}()
	call(i, nil, 0, entry, nil)
	res.Status = "ok"
	return
}

func panicString(v value) string {
	if it, ok := v.(iface); ok {
		switch x := it.v.(type) {
		case string:
			return x
		case *value:
			// error values: try to print the message field of errors.errorString / fmt.wrapError
			if x != nil {
				if s, ok := (*x).(structure); ok && len(s) > 0 {
					if m, ok := s[0].(string); ok {
						return m
					}
				}
			}
		}
		return toString(it.v)
	}
	return toString(v)
}

func ratString(t *sym.Term) string {
	if t.N.IsInt() {
		return t.N.Num().String()
	}
	return t.N.String()
}

func (ex *explorer) finish(res *PathResult) {
	res.Decisions = len(ex.trace)
	res.Steps = ex.i.steps
	if ex.unknownHere && res.Status == "ok" {
		// a sibling branch could not be decided: the path itself is fine but coverage is incomplete
	}
	if res.Status == "assume-false" {
		return
	}
	// final model for inputs
	m := ex.model
	ok := m != nil
	if ok {
		for c := range ex.pcSet {
			if v := sym.Eval(c, m); v == nil || !v.IsTrue() {
				ok = false
				break
			}
		}
	}
	if !ok {
		ex.solver.Push()
		if ex.solver.Check() == smt.Sat {
			m = ex.solver.Model(ex.inputTerms())
		} else {
			m = nil
		}
		ex.solver.Pop()
	}
	res.Inputs = map[string]string{}
	res.InputsF = map[string]float64{}
	if m != nil {
		for _, in := range ex.inputs {
			v := m[in.term]
			if v == nil {
				continue
			}
			switch v.Sort.K {
			case sym.KBool:
				res.Inputs[in.ID] = fmt.Sprint(v.U != 0)
			case sym.KBV:
				if in.Kind == "int" || in.Kind == "choose" {
					res.Inputs[in.ID] = fmt.Sprint(v.SignedVal())
					if in.Lo >= 0 {
						res.Inputs[in.ID] = fmt.Sprint(v.U)
					}
				} else {
					res.Inputs[in.ID] = fmt.Sprint(v.U)
				}
			case sym.KInt, sym.KReal:
				res.Inputs[in.ID] = ratString(v)
				f, _ := v.N.Float64()
				res.InputsF[in.ID] = f
			}
		}
	}
	for k := range ex.events {
		e := &ex.events[k]
		if e.term != nil {
			if m != nil {
				if v := sym.Eval(e.term, m); v != nil {
					switch v.Sort.K {
					case sym.KBool:
						e.Value = fmt.Sprint(v.U != 0)
					case sym.KBV:
						if kindSigned(e.kind) {
							e.Value = fmt.Sprint(v.SignedVal())
						} else {
							e.Value = fmt.Sprint(v.U)
						}
					default:
						e.Value = ratString(v)
					}
					continue
				}
			}
			e.Value = "?"
		}
	}
	res.Events = ex.events
}

// freeCount is the number of non-forced decisions in p.
func freeCount(p []decision) int {
	n := 0
	for _, d := range p {
		if !d.forced {
			n++
		}
	}
	return n
}

func hashPrefix(p []decision, n int) uint32 {
	// only the values of the first n free (non-forced) decisions: term identities
	// differ from process to process, and forced decisions carry no information
	var h uint32 = 2166136261
	k := 0
	for _, d := range p {
		if d.forced {
			continue
		}
		if k >= n {
			break
		}
		if d.val {
			h ^= 0x9e
		} else {
			h ^= 0x3b
		}
		h *= 16777619
		h ^= uint32(k)
		h *= 16777619
		k++
	}
	return h
}

// Explore runs entry along every feasible path within cfg's bounds.
func (i *interpreter) Explore(entry *ssa.Function, cfg Config) *Report {
	start := time.Now()
	solver, err := smt.New(cfg.SolverKind, cfg.SolverTimeMs)
	if err != nil {
		panic(err)
	}
	defer solver.Close()
	if cfg.SolverLog != "" {
		f, _ := os.Create(cfg.SolverLog)
		defer f.Close()
		solver.SetLog(f)
	}
	ex := &explorer{i: i, solver: solver, cfg: cfg, allInputs: map[string]Input{}}
	i.ex = ex
	i.maxSteps = cfg.MaxSteps
	i.maxDepth = cfg.MaxDepth
	i.trace = cfg.Trace
	i.funcsEntered = map[*ssa.Function]int{}
	defer func() { i.ex = nil }()

	rep := &Report{Harness: entry.Name(), ByStatus: map[string]int{}, Reach: map[string]int{}, Asserts: map[string]int{}}
	ex.queue = []workItem{{}}
	if len(cfg.Prefixes) > 0 {
		ex.queue = nil
		for _, ps := range cfg.Prefixes {
			var pr []decision
			for _, ch := range ps {
				pr = append(pr, decision{nil, ch == 't' || ch == 'T', ch == 'T' || ch == 'F'})
			}
			ex.queue = append(ex.queue, workItem{prefix: pr})
		}
	}
	for len(ex.queue) > 0 {
		if cfg.FrontierMin > 0 && len(ex.queue) >= cfg.FrontierMin {
			break
		}
		if cfg.MaxPaths > 0 && rep.Paths >= cfg.MaxPaths {
			rep.Truncated, rep.TruncatedWhy = true, "path limit"
			break
		}
		if cfg.TimeLimit > 0 && time.Since(start) > cfg.TimeLimit {
			rep.Truncated, rep.TruncatedWhy = true, "time limit"
			break
		}
		var item workItem
		if cfg.FrontierMin > 0 {
			// breadth-first while building a frontier
			item = ex.queue[0]
			ex.queue = ex.queue[1:]
		} else {
			// depth-first: take the most recent item (keeps the queue small)
			item = ex.queue[len(ex.queue)-1]
			ex.queue = ex.queue[:len(ex.queue)-1]
		}
		if cfg.Shards > 1 && freeCount(item.prefix) >= cfg.ShardDepth {
			if int(hashPrefix(item.prefix, cfg.ShardDepth)%uint32(cfg.Shards)) != cfg.Shard {
				continue
			}
		}
		res := ex.runOne(entry, item)
		if cfg.Shards > 1 && freeCount(ex.trace) < cfg.ShardDepth && cfg.Shard != 0 {
			// short paths are owned by shard 0
			continue
		}
		rep.Paths++
		rep.Decisions += res.Decisions
		rep.ByStatus[res.Status]++
		if res.Steps > rep.MaxStepsSeen {
			rep.MaxStepsSeen = res.Steps
		}
		if ex.unknownHere {
			rep.ByStatus["branch-unknown"]++
		}
		for _, e := range res.Events {
			switch e.Kind {
			case "reach":
				rep.Reach[e.Label]++
			case "assert":
				if e.OK {
					rep.Asserts[e.Label]++
				}
			}
		}
		switch res.Status {
		case "ok", "stopped":
			if len(rep.Samples) < cfg.KeepPaths {
				rep.Samples = append(rep.Samples, res)
			}
		case "assume-false":
		case "panic", "assert-failed":
			if res.Status == "panic" {
				res.Violation = "panic:" + panicCategory(res.PanicMsg) + "@" + firstFrame(res.Where)
			}
			rep.Violations = append(rep.Violations, res)
		case "outside-real-mode":
			if len(rep.Samples) < cfg.KeepPaths {
				rep.Samples = append(rep.Samples, res)
			}
		default:
			if len(rep.Inconclusive) < 50 {
				rep.Inconclusive = append(rep.Inconclusive, res)
			}
		}
	}
	rep.QueueLeft = len(ex.queue)
	if cfg.FrontierMin > 0 {
		for _, it := range ex.queue {
			var sb strings.Builder
			for _, d := range it.prefix {
				switch {
				case d.val && d.forced:
					sb.WriteByte('T')
				case d.val:
					sb.WriteByte('t')
				case d.forced:
					sb.WriteByte('F')
				default:
					sb.WriteByte('f')
				}
			}
			rep.Frontier = append(rep.Frontier, sb.String())
		}
		rep.QueueLeft = 0
	}
	rep.SolverQueries = solver.Queries
	rep.SolverTimeS = solver.Time.Seconds() + solver.ModelTime.Seconds()
	rep.ModelTimeS = solver.ModelTime.Seconds()
	rep.SolverErrors = solver.Errors
	rep.SolverUnknown = ex.unknowns
	rep.WallS = time.Since(start).Seconds()
	for fn := range i.funcsEntered {
		if fn.Pkg != nil && i.modulePath != "" && strings.HasPrefix(fn.Pkg.Pkg.Path(), i.modulePath) {
			rep.Functions = append(rep.Functions, fn.String())
		}
	}
	sort.Strings(rep.Functions)
	var ids []string
	for id := range ex.allInputs {
		ids = append(ids, id)
	}
	sort.Strings(ids)
	for _, id := range ids {
		rep.Inputs = append(rep.Inputs, ex.allInputs[id])
	}
	return rep
}

func firstFrame(where string) string {
	if k := strings.Index(where, " < "); k >= 0 {
		return where[:k]
	}
	return where
}

// shortStack returns the interpreter frames nearest to the failure.
func shortStack() string {
	lines := strings.Split(string(debug.Stack()), "\n")
	var keep []string
	for _, l := range lines {
		if strings.Contains(l, "/verif/engine/") && !strings.Contains(l, "explore.go") && !strings.Contains(l, "runFrame") {
			keep = append(keep, strings.TrimSpace(l))
			if len(keep) >= 6 {
				break
			}
		}
	}
	return strings.Join(keep, " | ")
}
