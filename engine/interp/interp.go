// Derived from golang.org/x/tools/go/ssa/interp (BSD-style license, The Go
// Authors): a symbolic executor for the SSA form of Go programs.

package interp

import (
	"fmt"
	"go/token"
	"go/types"
	"os"
	"runtime"
	"slices"
	"strings"

	"golang.org/x/tools/go/ssa"
	"symgo/sym"
)

type continuation int

const (
	kNext continuation = iota
	kReturn
	kJump
)

type methodSet map[string]*ssa.Function

// State of the interpreter.
type interpreter struct {
	prog               *ssa.Program
	globals            map[*ssa.Global]*value
	runtimeErrorString types.Type
	sizes              types.Sizes
	ex                 *explorer // nil while running package initialisers concretely
	undo               []undoRec
	undoOn             bool
	steps              int64
	maxSteps           int64
	maxDepth           int
	quietPrint         bool
	extCache           map[*ssa.Function]externalFn
	funcsEntered       map[*ssa.Function]int
	trace              bool
	initDone           map[*ssa.Package]bool
	modulePath         string
	embedFiles         map[string][]string // package path -> embed files
	curFrame           *frame
	sess               *Session
}

type deferred struct {
	fn    value
	args  []value
	instr *ssa.Defer
	tail  *deferred
}

type frame struct {
	i                *interpreter
	caller           *frame
	fn               *ssa.Function
	block, prevBlock *ssa.BasicBlock
	env              map[ssa.Value]value // dynamic values of SSA variables
	locals           []value
	defers           *deferred
	result           value
	panicking        bool
	panic            interface{}
	phitemps         []value // temporaries for parallel phi assignment
	depth            int
	skipPhis         bool // the phis of fr.block were already assigned (if-conversion)
}

func (fr *frame) get(key ssa.Value) value {
	switch key := key.(type) {
	case nil:
		return nil
	case *ssa.Function, *ssa.Builtin:
		return key
	case *ssa.Const:
		return constValue(key)
	case *ssa.Global:
		return fr.i.globalCell(key)
	}
	if r, ok := fr.env[key]; ok {
		return r
	}
	panic(fmt.Sprintf("get: no value for %T: %v", key, key.Name()))
}

// decide forks on a boolean term.
func (fr *frame) decide(c *sym.Term) bool {
	if c.IsConst() {
		return c.IsTrue()
	}
	if fr.i.ex == nil {
		panic(pathEnd{status: stEngineError, detail: "symbolic branch outside exploration"})
	}
	return fr.i.ex.decide(c)
}

// decideV forks on a boolean value (bool or sv).
func (fr *frame) decideV(v value) bool {
	switch v := v.(type) {
	case bool:
		return v
	case sv:
		return fr.decide(v.T)
	}
	panic(fmt.Sprintf("decideV: %T", v))
}

// assumeTrue adds c to the path condition (ending the path when infeasible).
func (fr *frame) assumeTrue(c *sym.Term) {
	if c.IsTrue() {
		return
	}
	if c.IsFalse() || fr.i.ex == nil {
		panic(pathEnd{status: stAssumeFalse})
	}
	fr.i.ex.assume(c)
}

func (fr *frame) runDefer(d *deferred) {
	var ok bool
	defer func() {
		if !ok {
			// Deferred call created a new state of panic.
			fr.panicking = true
			fr.panic = recover()
		}
	}()
	call(fr.i, fr, d.instr.Pos(), d.fn, d.args)
	ok = true
}

func (fr *frame) runDefers() {
	for d := fr.defers; d != nil; d = d.tail {
		fr.runDefer(d)
	}
	fr.defers = nil
	if fr.panicking {
		panic(fr.panic) // new panic, or still panicking
	}
}

func lookupMethod(i *interpreter, typ types.Type, meth *types.Func) *ssa.Function {
	return i.prog.LookupMethod(typ, meth.Pkg(), meth.Name())
}

func nilDeref() {
	panic(rtPanic("runtime error: invalid memory address or nil pointer dereference"))
}

func isScalarCell(v value) bool {
	switch v.(type) {
	case sv, bool, int, int8, int16, int32, int64, uint, uint8, uint16, uint32, uint64, uintptr, float32, float64:
		return true
	}
	return false
}

// symAddrOK reports whether every use of the address computed by instr can
// work on a symbolic address (loads, stores to it, field/element selection).
func symAddrOK(instr ssa.Value, depth int) bool {
	refs := instr.Referrers()
	if refs == nil || depth > 4 {
		return false
	}
	for _, r := range *refs {
		switch r := r.(type) {
		case *ssa.UnOp:
			if r.Op != token.MUL {
				return false
			}
		case *ssa.Store:
			if r.Addr != instr {
				return false
			}
		case *ssa.FieldAddr:
			if !symAddrOK(r, depth+1) {
				return false
			}
		case *ssa.IndexAddr:
			if r.X != instr || !symAddrOK(r, depth+1) {
				return false
			}
			if _, ok := r.Index.(*ssa.Const); !ok {
				return false
			}
		case *ssa.DebugRef:
		default:
			return false
		}
	}
	return true
}

// indexCell resolves &cells[idx] for a possibly symbolic idx. symOK says that
// a symbolic address is acceptable to the consumers of the result.
func (fr *frame) indexCell(cells []value, idx value, symOK bool) value {
	if s, ok := idx.(sv); ok {
		n := int64(len(cells))
		if n == 0 {
			panic(rtPanic("runtime error: index out of range"))
		}
		if symOK && n <= 1024 && s.T.Sort.K == sym.KBV {
			t := s.T
			// widen to 64 bits
			if w := t.Sort.W; w < 64 {
				if kindSigned(s.K) {
					t = sym.SignExt(64-w, t)
				} else {
					t = sym.ZeroExt(64-w, t)
				}
			}
			in := sym.BVCmp(sym.OBVUlt, t, sym.BVConst(64, uint64(n)))
			if !fr.decide(in) {
				panic(rtPanic("runtime error: index out of range"))
			}
			return symaddr{cells: cells, idx: t}
		}
		if symOK && n <= 1024 && s.T.Sort.K == sym.KInt {
			in := sym.And(sym.Le(sym.IntConst(0), s.T), sym.Lt(s.T, sym.IntConst(n)))
			if !fr.decide(in) {
				panic(rtPanic("runtime error: index out of range"))
			}
			return symaddr{cells: cells, idx: sym.Int2BV(64, s.T)}
		}
		c, ok := fr.concretize(idx, 0, n-1)
		if !ok {
			panic(rtPanic("runtime error: index out of range"))
		}
		return &cells[c]
	}
	k := asInt64(idx)
	if k < 0 || k >= int64(len(cells)) {
		panic(rtPanic(fmt.Sprintf("runtime error: index out of range [%d] with length %d", k, len(cells))))
	}
	return &cells[k]
}

// visitInstr interprets a single ssa.Instruction within the activation
// record frame.
func visitInstr(fr *frame, instr ssa.Instruction) continuation {
	switch instr := instr.(type) {
	case *ssa.DebugRef:
		// no-op

	case *ssa.UnOp:
		fr.env[instr] = unop(fr, instr, fr.get(instr.X))

	case *ssa.BinOp:
		fr.env[instr] = binop(fr, instr.Op, instr.X.Type(), fr.get(instr.X), fr.get(instr.Y))

	case *ssa.Call:
		fn, args := prepareCall(fr, &instr.Call)
		fr.env[instr] = call(fr.i, fr, instr.Pos(), fn, args)

	case *ssa.ChangeInterface:
		fr.env[instr] = fr.get(instr.X)

	case *ssa.ChangeType:
		fr.env[instr] = fr.get(instr.X) // (can't fail)

	case *ssa.Convert:
		fr.env[instr] = conv(fr, instr.Type(), instr.X.Type(), fr.get(instr.X))

	case *ssa.MultiConvert:
		fr.env[instr] = conv(fr, instr.Type(), instr.X.Type(), fr.get(instr.X))

	case *ssa.SliceToArrayPointer:
		fr.env[instr] = sliceToArrayPointer(instr.Type(), instr.X.Type(), fr.get(instr.X))

	case *ssa.MakeInterface:
		fr.env[instr] = iface{t: instr.X.Type(), v: fr.get(instr.X)}

	case *ssa.Extract:
		fr.env[instr] = fr.get(instr.Tuple).(tuple)[instr.Index]

	case *ssa.Slice:
		fr.env[instr] = slice(fr, fr.get(instr.X), fr.get(instr.Low), fr.get(instr.High), fr.get(instr.Max))

	case *ssa.Return:
		switch len(instr.Results) {
		case 0:
		case 1:
			fr.result = fr.get(instr.Results[0])
		default:
			var res []value
			for _, r := range instr.Results {
				res = append(res, fr.get(r))
			}
			fr.result = tuple(res)
		}
		fr.block = nil
		return kReturn

	case *ssa.RunDefers:
		fr.runDefers()

	case *ssa.Panic:
		panic(targetPanic{fr.get(instr.X)})

	case *ssa.Send:
		panic(pathEnd{status: stUnsupported, detail: "channel send"})

	case *ssa.Store:
		switch a := fr.get(instr.Addr).(type) {
		case *value:
			if a == nil {
				nilDeref()
			}
			fr.i.store(deref(instr.Addr.Type()), a, fr.get(instr.Val))
		case symaddr:
			fr.storeSym(deref(instr.Addr.Type()), a, fr.get(instr.Val))
		default:
			panic(fmt.Sprintf("store to %T", a))
		}

	case *ssa.If:
		cv := fr.get(instr.Cond)
		if c0, isSym := cv.(sv); isSym {
			if fr.ifChain(instr, c0) {
				return kJump
			}
			if fr.ifConvert(c0.T, fr.block.Succs[0], fr.block, fr.block.Succs[1], fr.block) {
				return kJump
			}
		}
		succ := 1
		if fr.decideV(cv) {
			succ = 0
		}
		fr.prevBlock, fr.block = fr.block, fr.block.Succs[succ]
		return kJump

	case *ssa.Jump:
		fr.prevBlock, fr.block = fr.block, fr.block.Succs[0]
		return kJump

	case *ssa.Defer:
		fn, args := prepareCall(fr, &instr.Call)
		defers := &fr.defers
		if into := fr.get(instr.DeferStack); into != nil {
			defers = into.(**deferred)
		}
		*defers = &deferred{
			fn:    fn,
			args:  args,
			instr: instr,
			tail:  *defers,
		}

	case *ssa.Go:
		panic(pathEnd{status: stUnsupported, detail: "go statement"})

	case *ssa.MakeChan:
		fr.env[instr] = make(chan value, asInt64(fr.get(instr.Size)))

	case *ssa.Alloc:
		var addr *value
		if instr.Heap {
			// new
			addr = new(value)
			fr.env[instr] = addr
		} else {
			// local
			addr = fr.env[instr].(*value)
		}
		*addr = zero(deref(instr.Type()))

	case *ssa.MakeSlice:
		c, ok := fr.concretize(fr.get(instr.Cap), 0, 1<<24)
		if !ok {
			panic(rtPanic("runtime error: makeslice: cap out of range"))
		}
		l, ok := fr.concretize(fr.get(instr.Len), 0, c)
		if !ok {
			panic(rtPanic("runtime error: makeslice: len out of range"))
		}
		slice := make([]value, c)
		tElt := instr.Type().Underlying().(*types.Slice).Elem()
		for i := range slice {
			slice[i] = zero(tElt)
		}
		fr.env[instr] = slice[:l]

	case *ssa.MakeMap:
		fr.env[instr] = makeMap(instr.Type().Underlying().(*types.Map).Key())

	case *ssa.Range:
		fr.env[instr] = rangeIter(fr, fr.get(instr.X), instr.X.Type())

	case *ssa.Next:
		fr.env[instr] = fr.get(instr.Iter).(iter).next(fr)

	case *ssa.FieldAddr:
		if sa, ok := fr.get(instr.X).(symaddr); ok {
			np := append(append([]int(nil), sa.path...), instr.Field)
			fr.env[instr] = symaddr{cells: sa.cells, idx: sa.idx, path: np}
			break
		}
		p := fr.get(instr.X).(*value)
		if p == nil {
			nilDeref()
		}
		fr.env[instr] = &(*p).(structure)[instr.Field]

	case *ssa.Field:
		fr.env[instr] = fr.get(instr.X).(structure)[instr.Field]

	case *ssa.IndexAddr:
		x := fr.get(instr.X)
		idx := fr.get(instr.Index)
		switch x := x.(type) {
		case []value:
			_, isS := idx.(sv)
			fr.env[instr] = fr.indexCell(x, idx, isS && symAddrOK(instr, 0))
		case *value: // *array
			if x == nil {
				nilDeref()
			}
			_, isS := idx.(sv)
			fr.env[instr] = fr.indexCell((*x).(array), idx, isS && symAddrOK(instr, 0))
		case symaddr: // element of an array selected symbolically, constant index
			np := append(append([]int(nil), x.path...), int(asInt64(idx)))
			fr.env[instr] = symaddr{cells: x.cells, idx: x.idx, path: np}
		default:
			panic(fmt.Sprintf("unexpected x type in IndexAddr: %T", x))
		}

	case *ssa.Index:
		x := fr.get(instr.X)
		idx := fr.get(instr.Index)

		switch x := x.(type) {
		case array:
			switch a := fr.indexCell(x, idx, true).(type) {
			case *value:
				fr.env[instr] = *a
			case symaddr:
				fr.env[instr] = fr.loadSym(instr.Type(), a)
			}
		case string:
			if _, isS := idx.(sv); !isS {
				k := asInt64(idx)
				if k < 0 || k >= int64(len(x)) {
					panic(rtPanic(fmt.Sprintf("runtime error: index out of range [%d] with length %d", k, len(x))))
				}
				fr.env[instr] = x[k]
				break
			}
			b := strBytes(x)
			switch a := fr.indexCell(b, idx, true).(type) {
			case *value:
				fr.env[instr] = *a
			case symaddr:
				fr.env[instr] = fr.loadSym(instr.Type(), a)
			}
		case *symstr:
			b := x.b
			switch a := fr.indexCell(b, idx, true).(type) {
			case *value:
				fr.env[instr] = *a
			case symaddr:
				fr.env[instr] = fr.loadSym(instr.Type(), a)
			}
		default:
			panic(fmt.Sprintf("unexpected x type in Index: %T", x))
		}

	case *ssa.Lookup:
		fr.env[instr] = lookup(fr, instr, fr.get(instr.X), fr.get(instr.Index))

	case *ssa.MapUpdate:
		m := fr.get(instr.Map).(*omap)
		if m == nil {
			panic(rtPanic("assignment to entry in nil map"))
		}
		m.insert(fr, fr.get(instr.Key), fr.get(instr.Value))

	case *ssa.TypeAssert:
		fr.env[instr] = typeAssert(fr.i, instr, fr.get(instr.X).(iface))

	case *ssa.MakeClosure:
		var bindings []value
		for _, binding := range instr.Bindings {
			bindings = append(bindings, fr.get(binding))
		}
		fr.env[instr] = &closure{instr.Fn.(*ssa.Function), bindings}

	case *ssa.Phi:
		panic("unreachable: phis are processed at block entry")

	case *ssa.Select:
		panic(pathEnd{status: stUnsupported, detail: "select statement"})

	default:
		panic(fmt.Sprintf("unexpected instruction: %T", instr))
	}

	return kNext
}

// prepareCall determines the function value and argument values for a
// function call in a Call, Go or Defer instruction, performing
// interface method lookup if needed.
func prepareCall(fr *frame, call *ssa.CallCommon) (fn value, args []value) {
	v := fr.get(call.Value)
	if call.Method == nil {
		// Function call.
		fn = v
	} else {
		// Interface method invocation.
		recv := v.(iface)
		if recv.t == nil {
			nilDeref()
		}
		if f := lookupMethod(fr.i, recv.t, call.Method); f == nil {
			// Unreachable in well-typed programs.
			panic(fmt.Sprintf("method set for dynamic type %v does not contain %s", recv.t, call.Method))
		} else {
			fn = f
		}
		args = append(args, recv.v)
	}
	for _, arg := range call.Args {
		args = append(args, fr.get(arg))
	}
	return
}

type nativeFn func(fr *frame, args []value) value

// call interprets a call to a function (function, builtin or closure)
// fn with arguments args, returning its result.
func call(i *interpreter, caller *frame, callpos token.Pos, fn value, args []value) value {
	switch fn := fn.(type) {
	case *ssa.Function:
		if fn == nil {
			nilDeref()
		}
		return callSSA(i, caller, callpos, fn, args, nil)
	case *closure:
		return callSSA(i, caller, callpos, fn.Fn, args, fn.Env)
	case *ssa.Builtin:
		return callBuiltin(caller, callpos, fn, args)
	case nativeFn:
		return fn(caller, args)
	}
	panic(fmt.Sprintf("cannot call %T", fn))
}

func (i *interpreter) external(fn *ssa.Function) externalFn {
	if e, ok := i.extCache[fn]; ok {
		return e
	}
	var e externalFn
	if fn.Parent() == nil {
		name := fn.String()
		e = externals[name]
		if e == nil && fn.Origin() != nil {
			// instantiated generic: match on the origin's name
			e = externals[fn.Origin().String()]
		}
	}
	i.extCache[fn] = e
	return e
}

func (i *interpreter) initAllowed(pkg *ssa.Package) bool {
	p := pkg.Pkg.Path()
	if i.modulePath != "" && (p == i.modulePath || strings.HasPrefix(p, i.modulePath+"/")) {
		// module packages whose initialisers do file I/O (embedded dictionaries, font maps)
		rel := strings.TrimPrefix(p, i.modulePath+"/")
		if moduleInitSkip[rel] {
			deniedUninit[p] = true
			return false
		}
		return true
	}
	return initWhitelist[p]
}

var initWhitelist = map[string]bool{
	"unicode": true, "unicode/utf8": true, "unicode/utf16": true, "strconv": true, "strings": true,
	"bytes": true, "math": true, "math/bits": true, "sort": true, "slices": true, "path": true,
	"golang.org/x/net/html": true, "golang.org/x/net/html/atom": true, "html": true,
	"io": true, "image/color": true, "container/list": true, "maps": true, "cmp": true,
	"internal/stringslite": true, "internal/bytealg": true, "internal/itoa": true, "math/rand": false,
}

// callSSA interprets a call to function fn with arguments args,
// and lexical environment env, returning its result.
func callSSA(i *interpreter, caller *frame, callpos token.Pos, fn *ssa.Function, args []value, env []value) value {
	fr := &frame{
		i:      i,
		caller: caller,
		fn:     fn,
	}
	if caller != nil {
		fr.depth = caller.depth + 1
		if fr.depth > i.maxDepth {
			panic(pathEnd{status: stBudget, detail: "call depth budget exceeded in " + fn.String()})
		}
	}
	if ext := i.external(fn); ext != nil {
		r := ext(fr, args)
		if _, ft := r.(fallThrough); !ft {
			return r
		}
	}
	if fn.Synthetic == "package initializer" && fn.Pkg != nil {
		if i.initDone[fn.Pkg] {
			return nil
		}
		if !i.initAllowed(fn.Pkg) {
			return nil
		}
		i.initDone[fn.Pkg] = true
		i.applyEmbeds(fn.Pkg) // //go:embed variables are set before the initialiser runs, as by the linker
	}
	if fn.Blocks == nil {
		if fn.Pkg != nil {
			fn.Pkg.Build()
		}
		if fn.Blocks == nil {
			panic(pathEnd{status: stUnsupported, detail: "no code for function: " + fn.String()})
		}
	}
	if fn.Pkg != nil && i.ex != nil && unsupportedPkgs[fn.Pkg.Pkg.Path()] {
		panic(pathEnd{status: stUnsupported, detail: "reflection-driven library code is not executed symbolically: " + fn.String()})
	}
	if fn.Pkg != nil && !i.initDone[fn.Pkg] && i.ex != nil {
		// calling into a package whose initialiser was skipped: its globals are zero
		if !i.initAllowed(fn.Pkg) {
			// (a harness living in such a package builds the state it needs by hand)
			if deniedUninit[fn.Pkg.Pkg.Path()] && (i.sess == nil || fn.Pkg != i.sess.Main) {
				panic(pathEnd{status: stUnsupported, detail: "call into uninitialised package: " + fn.String()})
			}
		}
	}
	if i.funcsEntered != nil {
		i.funcsEntered[fn]++
	}

	// generic function body?
	if fn.TypeParams().Len() > 0 && len(fn.TypeArgs()) == 0 {
		panic("interp requires ssa.BuilderMode to include InstantiateGenerics to execute generics")
	}

	fr.env = make(map[ssa.Value]value)
	fr.block = fn.Blocks[0]
	fr.locals = make([]value, len(fn.Locals))
	for i, l := range fn.Locals {
		fr.locals[i] = zero(deref(l.Type()))
		fr.env[l] = &fr.locals[i]
	}
	for i, p := range fn.Params {
		fr.env[p] = args[i]
	}
	for i, fv := range fn.FreeVars {
		fr.env[fv] = env[i]
	}
	prev := i.curFrame
	i.curFrame = fr
	for fr.block != nil {
		runFrame(fr)
	}
	i.curFrame = prev
	return fr.result
}

// library packages driven by reflection, which the interpreter does not model
var unsupportedPkgs = map[string]bool{"text/template": true, "html/template": true, "encoding/json": true, "encoding/xml": true, "encoding/gob": true}

// packages that are interpreted although their initialiser is not run
var deniedUninit = map[string]bool{}

var moduleInitSkip = map[string]bool{"text/hyphen": true}

func isEnginePanic(p interface{}) bool {
	switch p.(type) {
	case targetPanic, rtPanic:
		return false
	}
	return true
}

// runFrame executes SSA instructions starting at fr.block and
// continuing until a return, a panic, or a recovered panic.
func runFrame(fr *frame) {
	defer func() {
		if fr.block == nil {
			return // normal return
		}
		p := recover()
		if isEnginePanic(p) {
			// path end / engine error: unwind without running target defers
			panic(p)
		}
		fr.panicking = true
		fr.panic = p
		fr.runDefers()
		fr.block = fr.fn.Recover
	}()

	for {
		nonPhis := executePhis(fr)
		for _, instr := range nonPhis {
			fr.i.steps++
			if fr.i.steps > fr.i.maxSteps {
				panic(pathEnd{status: stBudget, detail: "step budget exceeded in " + fr.fn.String()})
			}
			if fr.i.trace {
				if v, ok := instr.(ssa.Value); ok {
					fmt.Fprintln(os.Stderr, "\t", fr.fn.Name(), v.Name(), "=", instr)
				} else {
					fmt.Fprintln(os.Stderr, "\t", fr.fn.Name(), instr)
				}
			}
			if visitInstr(fr, instr) == kReturn {
				return
			}
		}
	}
}

// executePhis executes the phi-nodes at the start of the current
// block and returns the non-phi instructions.
func executePhis(fr *frame) []ssa.Instruction {
	firstNonPhi := -1
	for i, instr := range fr.block.Instrs {
		if _, ok := instr.(*ssa.Phi); !ok {
			firstNonPhi = i
			break
		}
	}
	nonPhis := fr.block.Instrs[firstNonPhi:]
	if fr.skipPhis {
		fr.skipPhis = false
		return nonPhis
	}
	if firstNonPhi > 0 {
		phis := fr.block.Instrs[:firstNonPhi]
		predIndex := slices.Index(fr.block.Preds, fr.prevBlock)
		fr.phitemps = fr.phitemps[:0]
		for _, phi := range phis {
			phi := phi.(*ssa.Phi)
			fr.phitemps = append(fr.phitemps, fr.get(phi.Edges[predIndex]))
		}
		for i, phi := range phis {
			fr.env[phi.(*ssa.Phi)] = fr.phitemps[i]
		}
	}
	return nonPhis
}

// doRecover implements the recover() built-in.
func doRecover(caller *frame) value {
	if caller != nil && !caller.panicking &&
		caller.caller != nil && caller.caller.panicking {
		caller.caller.panicking = false
		p := caller.caller.panic
		caller.caller.panic = nil

		switch p := p.(type) {
		case targetPanic:
			return p.v
		case rtPanic:
			return iface{caller.i.runtimeErrorString, string(p)}
		case runtime.Error:
			return iface{caller.i.runtimeErrorString, p.Error()}
		case string:
			return iface{caller.i.runtimeErrorString, p}
		default:
			panic(fmt.Sprintf("unexpected panic type %T in target call to recover()", p))
		}
	}
	return iface{}
}

// pureCond reports whether block b only computes side-effect-free scalar
// values and ends in an If: it can be evaluated speculatively.
var pureCondCache = map[*ssa.BasicBlock]bool{}

func pureCond(b *ssa.BasicBlock) bool {
	if r, ok := pureCondCache[b]; ok {
		return r
	}
	ok := len(b.Preds) == 1 && len(b.Instrs) >= 1 && len(b.Instrs) <= 6
	if ok {
		if _, isIf := b.Instrs[len(b.Instrs)-1].(*ssa.If); !isIf {
			ok = false
		}
	}
	if ok {
		for _, in := range b.Instrs[:len(b.Instrs)-1] {
			switch x := in.(type) {
			case *ssa.BinOp:
				switch x.Op {
				case token.QUO, token.REM, token.SHL, token.SHR:
					ok = false
				}
				if _, isB := x.X.Type().Underlying().(*types.Basic); !isB {
					ok = false
				}
			case *ssa.UnOp:
				if x.Op == token.MUL || x.Op == token.ARROW {
					ok = false
				}
			case *ssa.Convert:
				if _, isB := x.Type().Underlying().(*types.Basic); !isB {
					ok = false
				}
				if _, isB := x.X.Type().Underlying().(*types.Basic); !isB {
					ok = false
				}
				if basicKind(x.Type()) == types.String || basicKind(x.X.Type()) == types.String {
					ok = false
				}
			case *ssa.DebugRef:
			default:
				ok = false
			}
		}
	}
	pureCondCache[b] = ok
	return ok
}

func samePhiEdges(target *ssa.BasicBlock, preds []*ssa.BasicBlock) bool {
	for _, in := range target.Instrs {
		phi, ok := in.(*ssa.Phi)
		if !ok {
			break
		}
		var first ssa.Value
		for _, p := range preds {
			k := slices.Index(target.Preds, p)
			if k < 0 {
				return false
			}
			e := phi.Edges[k]
			if first == nil {
				first = e
				continue
			}
			if e == first {
				continue
			}
			c1, ok1 := first.(*ssa.Const)
			c2, ok2 := e.(*ssa.Const)
			if !ok1 || !ok2 || c1.Value == nil || c2.Value == nil || c1.Value.ExactString() != c2.Value.ExactString() || !types.Identical(c1.Type(), c2.Type()) {
				return false
			}
		}
	}
	return true
}

// ifChain merges a chain of conditional jumps with a common target (the shape
// of `a || b || c`, `a && b && c` and of switch cases with several values) into
// a single decision on the disjunction / conjunction. It returns false when the
// shape does not apply.
func (fr *frame) ifChain(first *ssa.If, c0 sv) bool {
	b0 := fr.block
	for _, orMode := range []bool{true, false} {
		common, next := 0, 1 // OR: common true target
		if !orMode {
			common, next = 1, 0
		}
		target := b0.Succs[common]
		chain := []*ssa.BasicBlock{b0}
		conds := []*sym.Term{c0.T}
		cur := b0.Succs[next]
		for pureCond(cur) && cur.Succs[common] == target && cur != b0 && len(chain) < 80 {
			// speculative evaluation of the block's value instructions
			ok := true
			for _, in := range cur.Instrs[:len(cur.Instrs)-1] {
				if _, isDbg := in.(*ssa.DebugRef); isDbg {
					continue
				}
				func() {
					defer func() {
						if p := recover(); p != nil {
							if _, isEnd := p.(pathEnd); isEnd {
								ok = false
								return
							}
							ok = false
						}
					}()
					visitInstr(fr, in)
				}()
				if !ok {
					break
				}
			}
			if !ok {
				break
			}
			cv := fr.get(cur.Instrs[len(cur.Instrs)-1].(*ssa.If).Cond)
			var t *sym.Term
			switch c := cv.(type) {
			case bool:
				t = sym.BoolConst(c)
			case sv:
				t = c.T
			}
			chain = append(chain, cur)
			conds = append(conds, t)
			cur = cur.Succs[next]
		}
		if len(chain) < 2 {
			continue
		}
		if !samePhiEdges(target, chain) {
			continue
		}
		last := chain[len(chain)-1]
		var d *sym.Term
		if orMode {
			d = sym.Or(conds...)
		} else {
			d = sym.And(conds...)
		}
		if orMode {
			if fr.ifConvert(d, target, b0, last.Succs[next], last) {
				return true
			}
		} else {
			if fr.ifConvert(d, last.Succs[next], last, target, b0) {
				return true
			}
		}
		r := fr.decide(d)
		if r == orMode {
			// common target reached (some disjunct true / some conjunct false)
			fr.prevBlock, fr.block = b0, target
		} else {
			fr.prevBlock, fr.block = last, last.Succs[next]
		}
		return true
	}
	return false
}

// pureNativeCalls are natives without side effects that never fork or panic on scalars.
var pureNativeCalls = map[string]bool{
	"unicode.ToLower": true, "unicode.ToUpper": true,
	"math.Abs": true, "math.Max": true, "math.Min": true,
}

var pureJumpCache = map[*ssa.BasicBlock]bool{}

// pureJump reports whether b computes only side-effect-free scalar values and ends in a Jump.
func pureJump(b *ssa.BasicBlock) bool {
	if r, ok := pureJumpCache[b]; ok {
		return r
	}
	ok := len(b.Preds) == 1 && len(b.Instrs) >= 1 && len(b.Instrs) <= 8
	if ok {
		if _, isJ := b.Instrs[len(b.Instrs)-1].(*ssa.Jump); !isJ {
			ok = false
		}
	}
	if ok {
		for _, in := range b.Instrs[:len(b.Instrs)-1] {
			switch x := in.(type) {
			case *ssa.BinOp:
				switch x.Op {
				case token.QUO, token.REM, token.SHL, token.SHR:
					ok = false
				}
				if _, isB := x.X.Type().Underlying().(*types.Basic); !isB {
					ok = false
				}
			case *ssa.UnOp:
				if x.Op == token.MUL || x.Op == token.ARROW {
					ok = false
				}
			case *ssa.Convert:
				_, b1 := x.Type().Underlying().(*types.Basic)
				_, b2 := x.X.Type().Underlying().(*types.Basic)
				if !b1 || !b2 || basicKind(x.Type()) == types.String || basicKind(x.X.Type()) == types.String {
					ok = false
				}
			case *ssa.Call:
				f := x.Call.StaticCallee()
				if f == nil || !pureNativeCalls[f.String()] {
					ok = false
				}
			case *ssa.DebugRef:
			default:
				ok = false
			}
		}
	}
	pureJumpCache[b] = ok
	return ok
}

// iteVals returns ite(c, a, b) for values of a common shape.
func iteVals(c *sym.Term, a, b value) (value, bool) {
	// reuse mergeVals with a one-bit selector: index 0 -> a, otherwise b
	sel := sym.Ite(c, sym.BVConst(64, 0), sym.BVConst(64, 1))
	return mergeVals([]value{a, b}, sel)
}

// specExec evaluates the value instructions of a pure block; it reports failure
// (and leaves no side effects) when something cannot be evaluated speculatively.
func (fr *frame) specExec(b *ssa.BasicBlock) (ok bool) {
	ok = true
	defer func() {
		if p := recover(); p != nil {
			ok = false
		}
	}()
	for _, in := range b.Instrs[:len(b.Instrs)-1] {
		if _, isDbg := in.(*ssa.DebugRef); isDbg {
			continue
		}
		visitInstr(fr, in)
	}
	return ok
}

// ifConvert turns a triangle or diamond of pure blocks into ite-terms on the
// join block's phis instead of forking. c is the branch condition; tBlock is
// entered from tPrev when c holds, fBlock from fPrev otherwise.
func (fr *frame) ifConvert(c *sym.Term, tBlock, tPrev, fBlock, fPrev *ssa.BasicBlock) bool {
	if c.IsConst() {
		return false
	}
	var join *ssa.BasicBlock
	tPure := pureJump(tBlock) && tBlock.Preds[0] == tPrev
	fPure := pureJump(fBlock) && fBlock.Preds[0] == fPrev
	var tFrom, fFrom *ssa.BasicBlock // predecessors of join on each side
	switch {
	case tPure && tBlock.Succs[0] == fBlock:
		join, tFrom, fFrom = fBlock, tBlock, fPrev
		fPure = false
	case fPure && fBlock.Succs[0] == tBlock:
		join, tFrom, fFrom = tBlock, tPrev, fBlock
		tPure = false
	case tPure && fPure && tBlock.Succs[0] == fBlock.Succs[0]:
		join, tFrom, fFrom = tBlock.Succs[0], tBlock, fBlock
	default:
		return false
	}
	if tFrom == fFrom {
		return false
	}
	// join must start with phis only needing scalar-like merges
	var phis []*ssa.Phi
	for _, in := range join.Instrs {
		phi, ok := in.(*ssa.Phi)
		if !ok {
			break
		}
		phis = append(phis, phi)
	}
	if len(phis) == 0 {
		return false
	}
	kt, kf := slices.Index(join.Preds, tFrom), slices.Index(join.Preds, fFrom)
	if kt < 0 || kf < 0 {
		return false
	}
	if tPure && !fr.specExec(tBlock) {
		return false
	}
	if fPure && !fr.specExec(fBlock) {
		return false
	}
	vals := make([]value, len(phis))
	for i, phi := range phis {
		vt, vf := fr.get(phi.Edges[kt]), fr.get(phi.Edges[kf])
		// never turn concrete word-sized integers (positions, lengths, counters) into symbolic ones:
		// indexing and slicing would have to fork on them later, at a much higher price
		if k := basicKind(phi.Type()); kindBits(k) == 64 {
			_, st := vt.(sv)
			_, sf := vf.(sv)
			if !st || !sf {
				return false
			}
		}
		m, ok := iteVals(c, vt, vf)
		if !ok {
			return false
		}
		vals[i] = m
	}
	for i, phi := range phis {
		fr.env[phi] = vals[i]
	}
	fr.prevBlock, fr.block = tFrom, join
	fr.skipPhis = true
	return true
}
