package interp

import (
	"fmt"
	"go/ast"
	"go/token"
	"go/types"
	"os"
	"path/filepath"
	"strings"
	"time"

	"golang.org/x/tools/go/packages"
	"golang.org/x/tools/go/ssa"
	"golang.org/x/tools/go/ssa/ssautil"
)

const tokenLSS = token.LSS

// Session is a loaded program ready for exploration.
type Session struct {
	Prog    *ssa.Program
	Main    *ssa.Package
	i       *interpreter
	pkgs    map[string]*packages.Package
	LoadS   float64
	InitS   float64
	InitErr string
}

// LoadOptions configures loading.
type LoadOptions struct {
	RepoDir string            // module root of the code under test
	Pattern string            // package pattern, e.g. ./css/counters
	Overlay map[string][]byte // extra files (absolute paths under RepoDir)
	ModFile string            // scratch go.mod (so that -mod=mod cannot touch the repo's)
	Tags    string
}

func Load(o LoadOptions) (*Session, error) {
	start := time.Now()
	env := append(os.Environ(),
		"GOFLAGS=-mod=mod -modfile="+o.ModFile,
		"GOPROXY=off", "GOSUMDB=off", "GOTOOLCHAIN=local", "GOWORK=off")
	cfg := &packages.Config{
		Mode:    packages.LoadAllSyntax | packages.NeedEmbedFiles | packages.NeedModule,
		Dir:     o.RepoDir,
		Env:     env,
		Overlay: o.Overlay,
	}
	if o.Tags != "" {
		cfg.BuildFlags = []string{"-tags=" + o.Tags}
	}
	pkgs, err := packages.Load(cfg, o.Pattern)
	if err != nil {
		return nil, err
	}
	if len(pkgs) != 1 {
		return nil, fmt.Errorf("pattern %s matched %d packages", o.Pattern, len(pkgs))
	}
	var errs []string
	packages.Visit(pkgs, nil, func(p *packages.Package) {
		for _, e := range p.Errors {
			errs = append(errs, e.Error())
		}
	})
	if len(errs) > 0 {
		return nil, fmt.Errorf("load errors:\n%s", strings.Join(errs, "\n"))
	}
	prog, ssapkgs := ssautil.AllPackages(pkgs, ssa.InstantiateGenerics)
	s := &Session{Prog: prog, Main: ssapkgs[0], pkgs: map[string]*packages.Package{}}
	packages.Visit(pkgs, nil, func(p *packages.Package) { s.pkgs[p.PkgPath] = p })
	s.Main.Build()
	modPath := ""
	if pkgs[0].Module != nil {
		modPath = pkgs[0].Module.Path
	}
	i := &interpreter{
		prog:       prog,
		globals:    make(map[*ssa.Global]*value),
		sizes:      types.SizesFor("gc", "amd64"),
		extCache:   map[*ssa.Function]externalFn{},
		initDone:   map[*ssa.Package]bool{},
		modulePath: modPath,
		maxSteps:   1 << 40,
		maxDepth:   100000,
		quietPrint: true,
	}
	if rt := prog.ImportedPackage("runtime"); rt != nil {
		if t := rt.Type("errorString"); t != nil {
			i.runtimeErrorString = t.Object().Type()
		}
	}
	s.i = i
	i.sess = s
	s.LoadS = time.Since(start).Seconds()
	return s, nil
}

// RunInit runs the package initialisers (module packages and whitelisted
// standard packages) concretely.
func (s *Session) RunInit() (err error) {
	start := time.Now()
	defer func() {
		s.InitS = time.Since(start).Seconds()
		if p := recover(); p != nil {
			switch p := p.(type) {
			case pathEnd:
				err = fmt.Errorf("init: %s: %s (at %s)", statusNames[p.status], p.detail, s.i.whereStr())
			case targetPanic:
				err = fmt.Errorf("init: panic: %s (at %s)", panicString(p.v), s.i.whereStr())
			case rtPanic:
				err = fmt.Errorf("init: %s (at %s)", string(p), s.i.whereStr())
			default:
				err = fmt.Errorf("init: engine error: %v (at %s)", p, s.i.whereStr())
			}
		}
	}()
	call(s.i, nil, 0, s.Main.Func("init"), nil)
	return nil
}

func (i *interpreter) whereStr() string {
	var parts []string
	for fr := i.curFrame; fr != nil && len(parts) < 8; fr = fr.caller {
		parts = append(parts, fr.fn.String())
	}
	return strings.Join(parts, " < ")
}

// Harness looks up a harness function in the main package.
func (s *Session) Harness(name string) *ssa.Function {
	return s.Main.Func(name)
}

func (s *Session) Explore(name string, cfg Config) (*Report, error) {
	fn := s.Harness(name)
	if fn == nil {
		return nil, fmt.Errorf("no function %s in %s", name, s.Main.Pkg.Path())
	}
	return s.i.Explore(fn, cfg), nil
}

// HarnessNames lists functions of the main package with the given prefix.
func (s *Session) HarnessNames(prefix string) []string {
	var out []string
	for name, m := range s.Main.Members {
		if _, ok := m.(*ssa.Function); ok && strings.HasPrefix(name, prefix) {
			out = append(out, name)
		}
	}
	return out
}

// applyEmbeds initialises //go:embed string and []byte variables of pkg.
func (i *interpreter) applyEmbeds(pkg *ssa.Package) {
	pp := i.sess.pkgs[pkg.Pkg.Path()]
	if pp == nil || len(pp.EmbedFiles) == 0 {
		return
	}
	for _, f := range pp.Syntax {
		for _, d := range f.Decls {
			gd, ok := d.(*ast.GenDecl)
			if !ok || gd.Tok != token.VAR {
				continue
			}
			for _, sp := range gd.Specs {
				vs := sp.(*ast.ValueSpec)
				doc := vs.Doc
				if doc == nil {
					doc = gd.Doc
				}
				if doc == nil || len(vs.Names) != 1 {
					continue
				}
				for _, c := range doc.List {
					if !strings.HasPrefix(c.Text, "//go:embed ") {
						continue
					}
					pat := strings.TrimSpace(strings.TrimPrefix(c.Text, "//go:embed "))
					dir := filepath.Dir(i.prog.Fset.Position(f.Pos()).Filename)
					data, err := os.ReadFile(filepath.Join(dir, pat))
					if err != nil {
						continue
					}
					g, ok := pkg.Members[vs.Names[0].Name].(*ssa.Global)
					if !ok {
						continue
					}
					cell := i.globalCell(g)
					switch deref(g.Type()).Underlying().(type) {
					case *types.Basic:
						*cell = string(data)
					case *types.Slice:
						*cell = valuesOf(data)
					}
				}
			}
		}
	}
}

func (i *interpreter) globalCell(g *ssa.Global) *value {
	if r, ok := i.globals[g]; ok {
		return r
	}
	cell := zero(deref(g.Type()))
	i.globals[g] = &cell
	return &cell
}
