package interp

// Native models of the harness API (package vx) and of standard-library
// functions that cannot be interpreted from source (assembly, unsafe, I/O) or
// that would fork needlessly on symbolic bytes.

import (
	"bytes"
	"fmt"
	"go/types"
	"math"
	"math/big"
	"os"
	"sort"
	"strconv"
	"strings"
	"unicode/utf8"

	"golang.org/x/tools/go/ssa"
	"symgo/sym"
)

type externalFn func(fr *frame, args []value) value

// fallThrough is returned by a native to request interpretation of the real body.
type fallThrough struct{}

var externals = make(map[string]externalFn)

const vxPkg = "github.com/benoitkugler/webrender/vx."

func regExt(m map[string]externalFn) {
	for k, v := range m {
		externals[k] = v
	}
}

func str(v value) string { return v.(string) }

func concreteStr(v value) (string, bool) {
	s, ok := v.(string)
	return s, ok
}

func allConcrete(args []value) bool {
	for _, a := range args {
		switch a := a.(type) {
		case sv, *symstr:
			return false
		case []value:
			for _, e := range a {
				if isSym(e) {
					return false
				}
			}
		}
	}
	return true
}

func bytesOf(v []value) []byte {
	b := make([]byte, len(v))
	for i, x := range v {
		b[i] = x.(uint8)
	}
	return b
}

func valuesOf(b []byte) []value {
	v := make([]value, len(b))
	for i, x := range b {
		v[i] = x
	}
	return v
}

// seqBytes returns the byte values of a string or []byte argument.
func seqBytes(v value) []value {
	switch v := v.(type) {
	case []value:
		return v
	}
	return strBytes(v)
}

func (fr *frame) ex() *explorer {
	if fr.i.ex == nil {
		panic(pathEnd{status: stEngineError, detail: "vx call outside exploration"})
	}
	return fr.i.ex
}

func init() {
	regExt(map[string]externalFn{
		// ---- harness API ----
		vxPkg + "Int": func(fr *frame, a []value) value {
			return fr.ex().newInput(fr, str(a[0]), "int", types.Int, asInt64(a[1]), asInt64(a[2]))
		},
		vxPkg + "IntM": func(fr *frame, a []value) value {
			return fr.ex().newInput(fr, str(a[0]), "intm", types.Int, asInt64(a[1]), asInt64(a[2]))
		},
		vxPkg + "Int32": func(fr *frame, a []value) value {
			return fr.ex().newInput(fr, str(a[0]), "int", types.Int32, asInt64(a[1]), asInt64(a[2]))
		},
		vxPkg + "Uint8": func(fr *frame, a []value) value {
			return fr.ex().newInput(fr, str(a[0]), "int", types.Uint8, 0, 255)
		},
		vxPkg + "Byte": func(fr *frame, a []value) value {
			return fr.ex().newInput(fr, str(a[0]), "int", types.Uint8, 0, 255)
		},
		vxPkg + "ByteIn": func(fr *frame, a []value) value {
			return fr.ex().newInput(fr, str(a[0]), "int", types.Uint8, asInt64(a[1]), asInt64(a[2]))
		},
		vxPkg + "Rune": func(fr *frame, a []value) value {
			return fr.ex().newInput(fr, str(a[0]), "int", types.Int32, asInt64(a[1]), asInt64(a[2]))
		},
		vxPkg + "Bool": func(fr *frame, a []value) value {
			return fr.ex().newInput(fr, str(a[0]), "bool", types.Bool, 0, 1)
		},
		vxPkg + "F32": func(fr *frame, a []value) value {
			return fr.ex().newInput(fr, str(a[0]), "f32", types.Float32, 0, 0)
		},
		vxPkg + "F64": func(fr *frame, a []value) value {
			return fr.ex().newInput(fr, str(a[0]), "f64", types.Float64, 0, 0)
		},
		vxPkg + "Choose": func(fr *frame, a []value) value {
			n := asInt64(a[1])
			v := fr.ex().newInput(fr, str(a[0]), "choose", types.Int, 0, n-1)
			c, _ := fr.concretize(v, 0, n-1)
			return int(c)
		},
		vxPkg + "Bytes": func(fr *frame, a []value) value {
			n := int(asInt64(a[1]))
			out := make([]value, n)
			for k := 0; k < n; k++ {
				out[k] = fr.ex().newInput(fr, fmt.Sprintf("%s[%d]", str(a[0]), k), "int", types.Uint8, 0, 255)
			}
			return out
		},
		vxPkg + "String": func(fr *frame, a []value) value {
			n := int(asInt64(a[1]))
			out := make([]value, n)
			for k := 0; k < n; k++ {
				out[k] = fr.ex().newInput(fr, fmt.Sprintf("%s[%d]", str(a[0]), k), "int", types.Uint8, 0, 255)
			}
			return mkStr(out)
		},
		vxPkg + "Assume": func(fr *frame, a []value) value {
			switch c := a[0].(type) {
			case bool:
				if !c {
					panic(pathEnd{status: stAssumeFalse})
				}
			case sv:
				fr.assumeTrue(c.T)
			}
			return nil
		},
		vxPkg + "Assert": func(fr *frame, a []value) value {
			label := str(a[0])
			ok := fr.decideV(a[1])
			ex := fr.ex()
			ex.events = append(ex.events, Event{Kind: "assert", Label: label, OK: ok})
			if !ok {
				panic(pathEnd{status: stAssertFailed, detail: label})
			}
			return nil
		},
		vxPkg + "Reach": func(fr *frame, a []value) value {
			ex := fr.ex()
			ex.events = append(ex.events, Event{Kind: "reach", Label: str(a[0])})
			return nil
		},
		vxPkg + "Stop": func(fr *frame, a []value) value {
			panic(pathEnd{status: stStop})
		},
		vxPkg + "MapOrder": func(fr *frame, a []value) value {
			fr.ex().mapOrderSymbolic = a[0].(bool)
			fr.ex().mapOrderIn = ""
			return nil
		},
		vxPkg + "MapOrderIn": func(fr *frame, a []value) value {
			fr.ex().mapOrderIn = str(a[0])
			fr.ex().mapOrderSymbolic = fr.ex().mapOrderIn != ""
			return nil
		},
		vxPkg + "Or": func(fr *frame, a []value) value {
			return mkScalar(sym.Or(termOf(a[0], false), termOf(a[1], false)), types.Bool)
		},
		vxPkg + "And": func(fr *frame, a []value) value {
			return mkScalar(sym.And(termOf(a[0], false), termOf(a[1], false)), types.Bool)
		},
		vxPkg + "Not": func(fr *frame, a []value) value {
			return mkScalar(sym.Not(termOf(a[0], false)), types.Bool)
		},
		vxPkg + "Implies": func(fr *frame, a []value) value {
			return mkScalar(sym.Implies(termOf(a[0], false), termOf(a[1], false)), types.Bool)
		},
		vxPkg + "Ite":      nativeIte,
		vxPkg + "IteByte":  nativeIte,
		vxPkg + "IteF":     nativeIte,
		vxPkg + "Symbolic": func(fr *frame, a []value) value { return true },
		vxPkg + "Tier":     func(fr *frame, a []value) value { return fr.ex().cfg.Tier },
		vxPkg + "ObserveInt": func(fr *frame, a []value) value {
			ex := fr.ex()
			switch v := a[1].(type) {
			case sv:
				ex.events = append(ex.events, Event{Kind: "observe", Label: str(a[0]), term: v.T, kind: v.K})
			default:
				ex.events = append(ex.events, Event{Kind: "observe", Label: str(a[0]), Value: fmt.Sprint(asInt64(v))})
			}
			return nil
		},
		vxPkg + "ObserveBool": func(fr *frame, a []value) value {
			ex := fr.ex()
			switch v := a[1].(type) {
			case sv:
				ex.events = append(ex.events, Event{Kind: "observe", Label: str(a[0]), term: v.T, kind: v.K})
			default:
				ex.events = append(ex.events, Event{Kind: "observe", Label: str(a[0]), Value: fmt.Sprint(v.(bool))})
			}
			return nil
		},
		vxPkg + "ObserveString": func(fr *frame, a []value) value {
			ex := fr.ex()
			switch v := a[1].(type) {
			case string:
				ex.events = append(ex.events, Event{Kind: "observe", Label: str(a[0]), Value: fmt.Sprintf("hex:%x", v)})
			case *symstr:
				for k, b := range v.b {
					lbl := fmt.Sprintf("%s[%d/%d]", str(a[0]), k, len(v.b))
					if s, ok := b.(sv); ok {
						ex.events = append(ex.events, Event{Kind: "observe", Label: lbl, term: s.T, kind: types.Uint8})
					} else {
						ex.events = append(ex.events, Event{Kind: "observe", Label: lbl, Value: fmt.Sprint(b.(uint8))})
					}
				}
			}
			return nil
		},
		// DeepEqual on interpreter values (harness oracles)
		vxPkg + "DeepEqual": func(fr *frame, a []value) value {
			return mkScalar(deepEqual(a[0], a[1], 0), types.Bool)
		},
		vxPkg + "Sin": ufMath("sin"), vxPkg + "Cos": ufMath("cos"), vxPkg + "Tan": ufMath("tan"),
		vxPkg + "RealEq": func(fr *frame, a []value) value {
			if x, ok := a[0].(float64); ok {
				if y, ok := a[1].(float64); ok {
					d := math.Abs(x - y)
					return d <= 1e-4*math.Max(1, math.Max(math.Abs(x), math.Abs(y)))
				}
			}
			return mkScalar(sym.Eq(termOf(a[0], false), termOf(a[1], false)), types.Bool)
		},
		vxPkg + "Finite": func(fr *frame, a []value) value {
			if x, ok := a[0].(float64); ok {
				return !math.IsNaN(x) && !math.IsInf(x, 0)
			}
			return true
		},
		vxPkg + "ApproxEq": func(fr *frame, a []value) value {
			if x, ok := a[0].(float64); ok {
				if y, ok := a[1].(float64); ok {
					d := math.Abs(x - y)
					return d <= 1e-4*math.Max(1, math.Max(math.Abs(x), math.Abs(y)))
				}
			}
			// |x-y| <= 1e-4 * max(1, |x|, |y|), the same tolerance as the native runtime
			x, y := termOf(a[0], false), termOf(a[1], false)
			zero := sym.RealConst(new(big.Rat))
			abs := func(t *sym.Term) *sym.Term { return sym.Ite(sym.Lt(t, zero), sym.Neg(t), t) }
			ax, ay := abs(x), abs(y)
			m := sym.RealConst(big.NewRat(1, 1))
			m = sym.Ite(sym.Lt(m, ax), ax, m)
			m = sym.Ite(sym.Lt(m, ay), ay, m)
			tol := sym.Arith(sym.OMul, m, sym.RealConst(big.NewRat(1, 10000)))
			d := sym.Arith(sym.OSub, x, y)
			return mkScalar(sym.And(sym.Le(d, tol), sym.Le(sym.Neg(d), tol)), types.Bool)
		},
	})
	regStd()
}

const stAssertFailed pathStatus = 100

func init() { statusNames[stAssertFailed] = "assert-failed" }

// deepEqual compares two interpreter values structurally (through pointers),
// producing a term.
func deepEqual(x, y value, depth int) *sym.Term {
	if depth > 40 {
		panic(pathEnd{status: stUnsupported, detail: "DeepEqual recursion too deep"})
	}
	switch x := x.(type) {
	case iface:
		y, ok := y.(iface)
		if !ok {
			return sym.False
		}
		if !sameType(x.t, y.t) {
			return sym.False
		}
		if x.t == nil {
			return sym.True
		}
		return deepEqual(x.v, y.v, depth+1)
	case sv:
		if isSym(y) || isScalarCell(y) {
			return eqScalar(x, y)
		}
		return sym.False
	case string, *symstr:
		if !isStr(y) {
			return sym.False
		}
		return eqString(x, y)
	case structure:
		y, ok := y.(structure)
		if !ok || len(x) != len(y) {
			return sym.False
		}
		c := sym.True
		for i := range x {
			c = sym.And(c, deepEqual(x[i], y[i], depth+1))
			if c.IsFalse() {
				return c
			}
		}
		return c
	case array:
		y, ok := y.(array)
		if !ok || len(x) != len(y) {
			return sym.False
		}
		c := sym.True
		for i := range x {
			c = sym.And(c, deepEqual(x[i], y[i], depth+1))
			if c.IsFalse() {
				return c
			}
		}
		return c
	case []value:
		y, ok := y.([]value)
		if !ok || len(x) != len(y) || (x == nil) != (y == nil) {
			return sym.False
		}
		c := sym.True
		for i := range x {
			c = sym.And(c, deepEqual(x[i], y[i], depth+1))
			if c.IsFalse() {
				return c
			}
		}
		return c
	case *value:
		y, ok := y.(*value)
		if !ok {
			return sym.False
		}
		if x == y {
			return sym.True
		}
		if x == nil || y == nil {
			return sym.False
		}
		return deepEqual(*x, *y, depth+1)
	case *omap:
		y, ok := y.(*omap)
		if !ok || x.len() != y.len() || (x == nil) != (y == nil) {
			return sym.False
		}
		if x == nil {
			return sym.True
		}
		if x.nsym > 0 || y.nsym > 0 {
			panic(pathEnd{status: stUnsupported, detail: "DeepEqual of maps with symbolic keys"})
		}
		c := sym.True
		for _, e := range x.ents {
			var f *oentry
			for _, g := range y.idx[hash(y.keyT, e.key)] {
				if equalsConcrete2(y.keyT, g.key, e.key) {
					f = g
				}
			}
			if f == nil {
				return sym.False
			}
			c = sym.And(c, deepEqual(e.val, f.val, depth+1))
		}
		return c
	case *ssa.Function:
		y, ok := y.(*ssa.Function)
		return sym.BoolConst(ok && x == nil && y == nil)
	case *closure:
		return sym.False
	case nil:
		return sym.BoolConst(y == nil)
	}
	if isSym(y) {
		return deepEqual(y, x, depth+1)
	}
	if isScalarCell(x) {
		if kindOfConcrete(x) != kindOfConcrete(y) {
			return sym.False
		}
		return sym.BoolConst(x == y)
	}
	panic(pathEnd{status: stUnsupported, detail: fmt.Sprintf("DeepEqual on %T", x)})
}

func ufMath(name string) externalFn {
	return func(fr *frame, a []value) value {
		switch x := a[0].(type) {
		case float64:
			switch name {
			case "sin":
				return math.Sin(x)
			case "cos":
				return math.Cos(x)
			case "tan":
				return math.Tan(x)
			case "atan":
				return math.Atan(x)
			}
		case sv:
			u := sym.DeclareUF("uf_"+name, []sym.Sort{sym.Real}, sym.Real)
			return mkScalar(sym.App(u, x.T), x.K)
		}
		panic(pathEnd{status: stUnsupported, detail: "math." + name})
	}
}

// ---- strings / bytes ----

// indexOf finds the first occurrence of sub in s at or after from, forking on
// symbolic byte comparisons.
func indexOf(fr *frame, s, sub []value, from int) int {
	n, m := len(s), len(sub)
	for i := from; i+m <= n; i++ {
		conj := make([]*sym.Term, 0, m)
		possible := true
		for j := 0; j < m; j++ {
			c := sym.Eq(byteTerm(s[i+j]), byteTerm(sub[j]))
			if c.IsFalse() {
				possible = false
				break
			}
			conj = append(conj, c)
		}
		if possible && fr.decide(sym.And(conj...)) {
			return i
		}
	}
	return -1
}

func lastIndexOf(fr *frame, s, sub []value) int {
	n, m := len(s), len(sub)
	for i := n - m; i >= 0; i-- {
		conj := make([]*sym.Term, 0, m)
		possible := true
		for j := 0; j < m; j++ {
			c := sym.Eq(byteTerm(s[i+j]), byteTerm(sub[j]))
			if c.IsFalse() {
				possible = false
				break
			}
			conj = append(conj, c)
		}
		if possible && fr.decide(sym.And(conj...)) {
			return i
		}
	}
	return -1
}

func countOf(fr *frame, s, sub []value) int {
	if len(sub) == 0 {
		// utf8.RuneCount(s) + 1
		n := 0
		for i := 0; i < len(s); {
			_, sz := decodeRune(fr, s[i:])
			i += sz
			n++
		}
		return n + 1
	}
	n := 0
	for i := 0; ; {
		j := indexOf(fr, s, sub, i)
		if j < 0 {
			return n
		}
		n++
		i = j + len(sub)
	}
}

func asciiAll(fr *frame, b []value) bool {
	conj := []*sym.Term{}
	for _, x := range b {
		switch x := x.(type) {
		case uint8:
			if x >= 0x80 {
				return false
			}
		case sv:
			conj = append(conj, sym.BVCmp(sym.OBVUlt, x.T, u8(0x80)))
		}
	}
	return fr.decide(sym.And(conj...))
}

func lowerByte(b value) value {
	switch b := b.(type) {
	case uint8:
		if 'A' <= b && b <= 'Z' {
			return b + 32
		}
		return b
	case sv:
		return mkScalar(sym.Ite(inRange8(b.T, 'A', 'Z'), sym.BVBin(sym.OBVAdd, b.T, u8(32)), b.T), types.Uint8)
	}
	panic("lowerByte")
}

func upperByte(b value) value {
	switch b := b.(type) {
	case uint8:
		if 'a' <= b && b <= 'z' {
			return b - 32
		}
		return b
	case sv:
		return mkScalar(sym.Ite(inRange8(b.T, 'a', 'z'), sym.BVBin(sym.OBVSub, b.T, u8(32)), b.T), types.Uint8)
	}
	panic("upperByte")
}

func mapBytes(b []value, f func(value) value) []value {
	out := make([]value, len(b))
	for i, x := range b {
		out[i] = f(x)
	}
	return out
}

func errorValue(fr *frame, msg string) value {
	pkg := fr.i.prog.ImportedPackage("errors")
	if pkg == nil {
		panic(pathEnd{status: stUnsupported, detail: "errors package not loaded"})
	}
	t := pkg.Type("errorString").Type()
	var cell value = structure{msg}
	return iface{t: types.NewPointer(t), v: &cell}
}

// goArg converts an interpreter value to a Go value for fmt; ok is false when symbolic.
func goArg(fr *frame, v value) (interface{}, bool) {
	switch x := v.(type) {
	case iface:
		if x.t == nil {
			return nil, true
		}
		// error / Stringer
		for _, m := range []string{"Error", "String"} {
			if sel := fr.i.prog.MethodSets.MethodSet(x.t).Lookup(nil, m); sel != nil {
				sig := sel.Type().(*types.Signature)
				if sig.Params().Len() == 0 && sig.Results().Len() == 1 && basicKind(sig.Results().At(0).Type()) == types.String {
					if p, isPtr := x.v.(*value); isPtr && p == nil {
						return "<nil>", true
					}
					fn := fr.i.prog.MethodValue(sel)
					if fn != nil {
						r := call(fr.i, fr, 0, fn, []value{x.v})
						if s, ok := r.(string); ok {
							return s, true
						}
						return "?", false
					}
				}
			}
		}
		return goArg(fr, x.v)
	case sv, *symstr:
		return "?", false
	case bool, int, int8, int16, int32, int64, uint, uint8, uint16, uint32, uint64, uintptr, float32, float64, string, complex64, complex128:
		return x, true
	case []value:
		isB := len(x) > 0
		for _, e := range x {
			if _, ok := e.(uint8); !ok {
				isB = false
			}
		}
		if isB {
			return bytesOf(x), true
		}
		out := make([]interface{}, len(x))
		ok := true
		for i, e := range x {
			var o bool
			out[i], o = goArg(fr, e)
			ok = ok && o
		}
		return out, ok
	case *value:
		if x == nil {
			return nil, true
		}
		return fmt.Sprintf("&%s", toString(*x)), !hasSym(*x)
	case nil:
		return nil, true
	}
	return toString(v), !hasSym(v)
}

func sprintf(fr *frame, format value, args []value, lenient bool) value {
	f, ok := format.(string)
	if !ok {
		if lenient {
			return "?"
		}
		panic(pathEnd{status: stUnsupported, detail: "fmt with symbolic format"})
	}
	gargs := make([]interface{}, len(args))
	for i, a := range args {
		g, ok := goArg(fr, a)
		if !ok && !lenient {
			return symSprintf(fr, f, args)
		}
		gargs[i] = g
	}
	return fmt.Sprintf(f, gargs...)
}

// symSprintf handles formats whose symbolic arguments are strings (%s, %v) or
// bytes/runes (%c); anything else is unsupported.
func symSprintf(fr *frame, f string, args []value) value {
	var out []value
	ai := 0
	for i := 0; i < len(f); i++ {
		c := f[i]
		if c != '%' {
			out = append(out, c)
			continue
		}
		i++
		if i >= len(f) {
			break
		}
		verb := f[i]
		if verb == '%' {
			out = append(out, uint8('%'))
			continue
		}
		if ai >= len(args) {
			panic(pathEnd{status: stUnsupported, detail: "fmt: missing argument with symbolic operands"})
		}
		a := args[ai]
		ai++
		if it, ok := a.(iface); ok {
			a = it.v
		}
		switch {
		case (verb == 's' || verb == 'v') && isStr(a):
			out = append(out, strBytes(a)...)
		case verb == 'c':
			switch r := a.(type) {
			case sv:
				if r.K == types.Uint8 {
					r32 := symConvScalar(fr, types.Int32, r)
					out = append(out, encodeRune(fr, r32)...)
				} else {
					out = append(out, encodeRune(fr, r)...)
				}
			default:
				g, _ := goArg(fr, a)
				out = append(out, valuesOf([]byte(fmt.Sprintf("%c", g)))...)
			}
		case (verb == 'X' || verb == 'x') && isSymInt(a):
			out = append(out, symHex(fr, a.(sv), verb == 'X')...)
		case verb == 'd' && isSymInt(a):
			n := fr.concretizeBinary(a.(sv))
			out = append(out, valuesOf([]byte(strconv.FormatInt(n, 10)))...)
		default:
			g, ok := goArg(fr, a)
			if !ok {
				panic(pathEnd{status: stUnsupported, detail: fmt.Sprintf("fmt verb %%%c with a symbolic operand", verb)})
			}
			out = append(out, valuesOf([]byte(fmt.Sprintf("%"+string(verb), g)))...)
		}
	}
	return mkStr(out)
}

func unwrapIfaces(v value) []value {
	s, _ := v.([]value)
	return s
}

func builderBuf(a value) *value {
	p := a.(*value)
	if p == nil {
		nilDeref()
	}
	return &(*p).(structure)[1]
}

func regStd() {
	nop := func(fr *frame, a []value) value { return nil }
	regExt(map[string]externalFn{
		// ---- strings.Builder (uses unsafe) ----
		"(*strings.Builder).String": func(fr *frame, a []value) value {
			b, _ := (*builderBuf(a[0])).([]value)
			return mkStr(b)
		},
		"(*strings.Builder).Len": func(fr *frame, a []value) value {
			b, _ := (*builderBuf(a[0])).([]value)
			return len(b)
		},
		"(*strings.Builder).Cap": func(fr *frame, a []value) value {
			b, _ := (*builderBuf(a[0])).([]value)
			return cap(b)
		},
		"(*strings.Builder).Reset": func(fr *frame, a []value) value {
			fr.i.set(builderBuf(a[0]), []value(nil))
			return nil
		},
		"(*strings.Builder).Grow": nop,
		"(*strings.Builder).WriteString": func(fr *frame, a []value) value {
			p := builderBuf(a[0])
			b, _ := (*p).([]value)
			s := strBytes(a[1])
			fr.i.set(p, fr.i.appendVals(types.Typ[types.Uint8], b, s))
			return tuple{len(s), iface{}}
		},
		"(*strings.Builder).Write": func(fr *frame, a []value) value {
			p := builderBuf(a[0])
			b, _ := (*p).([]value)
			s := a[1].([]value)
			fr.i.set(p, fr.i.appendVals(types.Typ[types.Uint8], b, s))
			return tuple{len(s), iface{}}
		},
		"(*strings.Builder).WriteByte": func(fr *frame, a []value) value {
			p := builderBuf(a[0])
			b, _ := (*p).([]value)
			fr.i.set(p, fr.i.appendVals(types.Typ[types.Uint8], b, []value{a[1]}))
			return iface{}
		},
		"(*strings.Builder).WriteRune": func(fr *frame, a []value) value {
			p := builderBuf(a[0])
			b, _ := (*p).([]value)
			enc := encodeRune(fr, a[1])
			fr.i.set(p, fr.i.appendVals(types.Typ[types.Uint8], b, enc))
			return tuple{len(enc), iface{}}
		},

		// ---- searching ----
		"strings.Index":                        func(fr *frame, a []value) value { return indexOf(fr, seqBytes(a[0]), seqBytes(a[1]), 0) },
		"bytes.Index":                          func(fr *frame, a []value) value { return indexOf(fr, seqBytes(a[0]), seqBytes(a[1]), 0) },
		"strings.Contains":                     func(fr *frame, a []value) value { return indexOf(fr, seqBytes(a[0]), seqBytes(a[1]), 0) >= 0 },
		"bytes.Contains":                       func(fr *frame, a []value) value { return indexOf(fr, seqBytes(a[0]), seqBytes(a[1]), 0) >= 0 },
		"strings.LastIndex":                    func(fr *frame, a []value) value { return lastIndexOf(fr, seqBytes(a[0]), seqBytes(a[1])) },
		"bytes.LastIndex":                      func(fr *frame, a []value) value { return lastIndexOf(fr, seqBytes(a[0]), seqBytes(a[1])) },
		"strings.IndexByte":                    func(fr *frame, a []value) value { return indexOf(fr, seqBytes(a[0]), []value{a[1]}, 0) },
		"bytes.IndexByte":                      func(fr *frame, a []value) value { return indexOf(fr, seqBytes(a[0]), []value{a[1]}, 0) },
		"strings.LastIndexByte":                func(fr *frame, a []value) value { return lastIndexOf(fr, seqBytes(a[0]), []value{a[1]}) },
		"bytes.LastIndexByte":                  func(fr *frame, a []value) value { return lastIndexOf(fr, seqBytes(a[0]), []value{a[1]}) },
		"internal/bytealg.IndexByte":           func(fr *frame, a []value) value { return indexOf(fr, seqBytes(a[0]), []value{a[1]}, 0) },
		"internal/bytealg.IndexByteString":     func(fr *frame, a []value) value { return indexOf(fr, seqBytes(a[0]), []value{a[1]}, 0) },
		"internal/bytealg.LastIndexByte":       func(fr *frame, a []value) value { return lastIndexOf(fr, seqBytes(a[0]), []value{a[1]}) },
		"internal/bytealg.LastIndexByteString": func(fr *frame, a []value) value { return lastIndexOf(fr, seqBytes(a[0]), []value{a[1]}) },
		"internal/bytealg.Index":               func(fr *frame, a []value) value { return indexOf(fr, seqBytes(a[0]), seqBytes(a[1]), 0) },
		"internal/bytealg.IndexString":         func(fr *frame, a []value) value { return indexOf(fr, seqBytes(a[0]), seqBytes(a[1]), 0) },
		"internal/stringslite.Index":           func(fr *frame, a []value) value { return indexOf(fr, seqBytes(a[0]), seqBytes(a[1]), 0) },
		"internal/stringslite.IndexByte":       func(fr *frame, a []value) value { return indexOf(fr, seqBytes(a[0]), []value{a[1]}, 0) },
		"strings.Count":                        func(fr *frame, a []value) value { return countOf(fr, seqBytes(a[0]), seqBytes(a[1])) },
		"bytes.Count":                          func(fr *frame, a []value) value { return countOf(fr, seqBytes(a[0]), seqBytes(a[1])) },
		"internal/bytealg.Count":               func(fr *frame, a []value) value { return countOf(fr, seqBytes(a[0]), []value{a[1]}) },
		"internal/bytealg.CountString":         func(fr *frame, a []value) value { return countOf(fr, seqBytes(a[0]), []value{a[1]}) },
		"bytes.Equal": func(fr *frame, a []value) value {
			x, y := a[0].([]value), a[1].([]value)
			return mkScalar(eqString(mkStr(x), mkStr(y)), types.Bool)
		},
		"internal/bytealg.Equal": func(fr *frame, a []value) value {
			x, y := a[0].([]value), a[1].([]value)
			return mkScalar(eqString(mkStr(x), mkStr(y)), types.Bool)
		},
		"internal/bytealg.MakeNoZero": func(fr *frame, a []value) value {
			n := int(asInt64(a[0]))
			out := make([]value, n)
			for i := range out {
				out[i] = uint8(0)
			}
			return out
		},
		"bytes.Compare":                  nativeCompare,
		"strings.Compare":                nativeCompare,
		"internal/bytealg.Compare":       nativeCompare,
		"internal/bytealg.CompareString": nativeCompare,
		"strings.ToLower": func(fr *frame, a []value) value {
			if s, ok := a[0].(string); ok {
				return strings.ToLower(s)
			}
			b := strBytes(a[0])
			if asciiAll(fr, b) {
				return mkStr(mapBytes(b, lowerByte))
			}
			return fallThrough{}
		},
		"strings.ToUpper": func(fr *frame, a []value) value {
			if s, ok := a[0].(string); ok {
				return strings.ToUpper(s)
			}
			b := strBytes(a[0])
			if asciiAll(fr, b) {
				return mkStr(mapBytes(b, upperByte))
			}
			return fallThrough{}
		},
		"bytes.ToLower": func(fr *frame, a []value) value {
			b := a[0].([]value)
			if asciiAll(fr, b) {
				return mapBytes(b, lowerByte)
			}
			return fallThrough{}
		},
		"strings.EqualFold": func(fr *frame, a []value) value {
			if allConcrete(a) {
				return strings.EqualFold(a[0].(string), a[1].(string))
			}
			x, y := strBytes(a[0]), strBytes(a[1])
			if asciiAll(fr, x) && asciiAll(fr, y) {
				if len(x) != len(y) {
					return false
				}
				return mkScalar(eqString(mkStr(mapBytes(x, lowerByte)), mkStr(mapBytes(y, lowerByte))), types.Bool)
			}
			return fallThrough{}
		},

		// ---- utf8 ----
		"unicode/utf8.DecodeRune": func(fr *frame, a []value) value {
			r, n := decodeRune(fr, a[0].([]value))
			return tuple{r, n}
		},
		"unicode/utf8.DecodeRuneInString": func(fr *frame, a []value) value {
			if s, ok := a[0].(string); ok {
				r, n := utf8.DecodeRuneInString(s)
				return tuple{r, n}
			}
			r, n := decodeRune(fr, strBytes(a[0]))
			return tuple{r, n}
		},
		"unicode/utf8.DecodeLastRune": func(fr *frame, a []value) value {
			r, n := decodeLastRune(fr, a[0].([]value))
			return tuple{r, n}
		},
		"unicode/utf8.DecodeLastRuneInString": func(fr *frame, a []value) value {
			if s, ok := a[0].(string); ok {
				r, n := utf8.DecodeLastRuneInString(s)
				return tuple{r, n}
			}
			r, n := decodeLastRune(fr, strBytes(a[0]))
			return tuple{r, n}
		},
		"unicode/utf8.AppendRune": func(fr *frame, a []value) value {
			b, _ := a[0].([]value)
			return fr.i.appendVals(types.Typ[types.Uint8], b, encodeRune(fr, a[1]))
		},
		"unicode/utf8.EncodeRune": func(fr *frame, a []value) value {
			p := a[0].([]value)
			enc := encodeRune(fr, a[1])
			if len(p) < len(enc) {
				panic(rtPanic("runtime error: index out of range"))
			}
			for i, b := range enc {
				fr.i.set(&p[i], b)
			}
			return len(enc)
		},
		"unicode/utf8.RuneLen": func(fr *frame, a []value) value {
			if r, ok := a[0].(int32); ok {
				return utf8.RuneLen(r)
			}
			t := a[0].(sv).T
			bad := sym.Or(sym.BVCmp(sym.OBVSlt, t, sym.BVConst(32, 0)), sym.BVCmp(sym.OBVSlt, sym.BVConst(32, 0x10FFFF), t),
				sym.And(sym.BVCmp(sym.OBVSle, sym.BVConst(32, 0xD800), t), sym.BVCmp(sym.OBVSle, t, sym.BVConst(32, 0xDFFF))))
			if fr.decide(bad) {
				return -1
			}
			return len(encodeRune(fr, a[0]))
		},
		"unicode/utf8.RuneCountInString": func(fr *frame, a []value) value {
			if s, ok := a[0].(string); ok {
				return utf8.RuneCountInString(s)
			}
			return countOf(fr, strBytes(a[0]), nil) - 1
		},
		"unicode/utf8.RuneCount": func(fr *frame, a []value) value {
			return countOf(fr, a[0].([]value), nil) - 1
		},
		"unicode/utf8.ValidString": func(fr *frame, a []value) value {
			if s, ok := a[0].(string); ok {
				return utf8.ValidString(s)
			}
			return validUTF8(fr, strBytes(a[0]))
		},
		"unicode/utf8.Valid": func(fr *frame, a []value) value { return validUTF8(fr, a[0].([]value)) },

		// ---- strconv ----
		"strconv.ParseFloat": func(fr *frame, a []value) value {
			s, ok := a[0].(string)
			if !ok {
				return symParseFloat(fr, a[0].(*symstr), int(asInt64(a[1])))
			}
			f, err := strconv.ParseFloat(s, int(asInt64(a[1])))
			if err != nil {
				return tuple{f, errorValue(fr, err.Error())}
			}
			return tuple{f, iface{}}
		},
		"strconv.FormatFloat": func(fr *frame, a []value) value {
			f, ok := a[0].(float64)
			if !ok {
				panic(pathEnd{status: stUnsupported, detail: "strconv.FormatFloat of a symbolic float"})
			}
			return strconv.FormatFloat(f, a[1].(uint8), int(asInt64(a[2])), int(asInt64(a[3])))
		},
		"internal/stringslite.Clone": func(fr *frame, a []value) value { return a[0] },
		"strings.Clone":              func(fr *frame, a []value) value { return a[0] },
		"strconv.Itoa": func(fr *frame, a []value) value {
			n, ok := a[0].(int)
			if !ok {
				return fallThrough{}
			}
			return strconv.Itoa(n)
		},
		"strconv.Quote": func(fr *frame, a []value) value {
			s, ok := a[0].(string)
			if !ok {
				return fallThrough{}
			}
			return strconv.Quote(s)
		},

		// ---- fmt / log / os: formatting is not a subject of any property ----
		"fmt.Sprintf": func(fr *frame, a []value) value { return sprintf(fr, a[0], unwrapIfaces(a[1]), false) },
		"fmt.Errorf": func(fr *frame, a []value) value {
			s := sprintf(fr, a[0], unwrapIfaces(a[1]), true)
			return errorValue(fr, s.(string))
		},
		"fmt.Sprint": func(fr *frame, a []value) value {
			args := unwrapIfaces(a[0])
			gargs := make([]interface{}, len(args))
			for i, x := range args {
				g, ok := goArg(fr, x)
				if !ok {
					if len(args) == 1 {
						if it, isI := x.(iface); isI && isStr(it.v) {
							return it.v
						}
					}
					panic(pathEnd{status: stUnsupported, detail: "fmt.Sprint of a symbolic value"})
				}
				gargs[i] = g
			}
			return fmt.Sprint(gargs...)
		},
		"fmt.Sprintln": func(fr *frame, a []value) value {
			args := unwrapIfaces(a[0])
			gargs := make([]interface{}, len(args))
			for i, x := range args {
				gargs[i], _ = goArg(fr, x)
			}
			return fmt.Sprintln(gargs...)
		},
		"fmt.Println":  func(fr *frame, a []value) value { return tuple{0, iface{}} },
		"fmt.Printf":   func(fr *frame, a []value) value { return tuple{0, iface{}} },
		"fmt.Print":    func(fr *frame, a []value) value { return tuple{0, iface{}} },
		"fmt.Fprintf":  func(fr *frame, a []value) value { return tuple{0, iface{}} },
		"fmt.Fprintln": func(fr *frame, a []value) value { return tuple{0, iface{}} },
		"fmt.Fprint":   func(fr *frame, a []value) value { return tuple{0, iface{}} },
		"log.Printf":   nop, "log.Println": nop, "log.Print": nop,
		"(*log.Logger).Printf": nop, "(*log.Logger).Println": nop, "(*log.Logger).Print": nop,
		"(*log.Logger).Output":    func(fr *frame, a []value) value { return iface{} },
		"(*log.Logger).SetOutput": nop, "(*log.Logger).SetFlags": nop, "(*log.Logger).SetPrefix": nop,
		"log.New": func(fr *frame, a []value) value {
			pkg := fr.i.prog.ImportedPackage("log")
			var cell value = zero(pkg.Type("Logger").Type())
			return &cell
		},
		"log.Default": func(fr *frame, a []value) value {
			pkg := fr.i.prog.ImportedPackage("log")
			var cell value = zero(pkg.Type("Logger").Type())
			return &cell
		},
		"os.Getenv":  func(fr *frame, a []value) value { return "" },
		"os.Exit":    func(fr *frame, a []value) value { panic(exitPanic(asInt64(a[0]))) },
		"runtime.GC": nop, "runtime.Gosched": nop,
		"runtime.KeepAlive":  nop,
		"(*sync.Mutex).Lock": nop, "(*sync.Mutex).Unlock": nop, "(*sync.RWMutex).Lock": nop, "(*sync.RWMutex).Unlock": nop,
		"(*sync.RWMutex).RLock": nop, "(*sync.RWMutex).RUnlock": nop,
		"(*sync.Once).Do": func(fr *frame, a []value) value {
			p := a[0].(*value)
			s := (*p).(structure)
			// first field: done (atomic.Uint32 struct or uint32)
			done := false
			switch d := s[0].(type) {
			case uint32:
				done = d != 0
			case structure:
				if len(d) > 1 {
					if u, ok := d[1].(uint32); ok {
						done = u != 0
					}
				}
			}
			if done {
				return nil
			}
			switch d := s[0].(type) {
			case uint32:
				fr.i.set(&s[0], uint32(1))
			case structure:
				fr.i.set(&d[1], uint32(1))
			}
			call(fr.i, fr, 0, a[1], nil)
			return nil
		},

		// ---- math ----
		"math.Abs": func(fr *frame, a []value) value {
			switch x := a[0].(type) {
			case float64:
				return math.Abs(x)
			case sv:
				return mkScalar(sym.Ite(sym.Lt(x.T, sym.RealConst(new(big.Rat))), sym.Neg(x.T), x.T), x.K)
			}
			panic("math.Abs")
		},
		"math.Floor": func(fr *frame, a []value) value {
			switch x := a[0].(type) {
			case float64:
				return math.Floor(x)
			case sv:
				return mkScalar(sym.ToReal(sym.ToInt(x.T)), x.K)
			}
			panic("math.Floor")
		},
		"math.Ceil": func(fr *frame, a []value) value {
			switch x := a[0].(type) {
			case float64:
				return math.Ceil(x)
			case sv:
				return mkScalar(sym.Neg(sym.ToReal(sym.ToInt(sym.Neg(x.T)))), x.K)
			}
			panic("math.Ceil")
		},
		"math.Trunc": func(fr *frame, a []value) value {
			switch x := a[0].(type) {
			case float64:
				return math.Trunc(x)
			case sv:
				fl := sym.ToReal(sym.ToInt(x.T))
				ce := sym.Neg(sym.ToReal(sym.ToInt(sym.Neg(x.T))))
				return mkScalar(sym.Ite(sym.Le(sym.RealConst(new(big.Rat)), x.T), fl, ce), x.K)
			}
			panic("math.Trunc")
		},
		"math.Round": func(fr *frame, a []value) value {
			switch x := a[0].(type) {
			case float64:
				return math.Round(x)
			case sv:
				// half away from zero
				half := sym.RealConst(big.NewRat(1, 2))
				pos := sym.ToReal(sym.ToInt(sym.Arith(sym.OAdd, x.T, half)))
				neg := sym.Neg(sym.ToReal(sym.ToInt(sym.Arith(sym.OAdd, sym.Neg(x.T), half))))
				return mkScalar(sym.Ite(sym.Le(sym.RealConst(new(big.Rat)), x.T), pos, neg), x.K)
			}
			panic("math.Round")
		},
		"math.Sqrt": func(fr *frame, a []value) value {
			switch x := a[0].(type) {
			case float64:
				return math.Sqrt(x)
			case sv:
				zero := sym.RealConst(new(big.Rat))
				if fr.decide(sym.Lt(x.T, zero)) {
					panic(pathEnd{status: stOutsideReal, detail: "sqrt of a negative number (NaN)"})
				}
				u := sym.DeclareUF("uf_sqrt", []sym.Sort{sym.Real}, sym.Real)
				y := sym.App(u, x.T)
				fr.assumeTrue(sym.And(sym.Le(zero, y), sym.Eq(sym.Arith(sym.OMul, y, y), x.T)))
				return mkScalar(y, x.K)
			}
			panic("math.Sqrt")
		},
		"math.Sin": ufMath("sin"), "math.Cos": ufMath("cos"), "math.Tan": ufMath("tan"), "math.Atan": ufMath("atan"),
		"math.Atan2": func(fr *frame, a []value) value {
			x, xok := a[0].(float64)
			y, yok := a[1].(float64)
			if xok && yok {
				return math.Atan2(x, y)
			}
			u := sym.DeclareUF("uf_atan2", []sym.Sort{sym.Real, sym.Real}, sym.Real)
			return mkScalar(sym.App(u, termOf(a[0], false), termOf(a[1], false)), types.Float64)
		},
		"math.Hypot": func(fr *frame, a []value) value {
			x, xok := a[0].(float64)
			y, yok := a[1].(float64)
			if xok && yok {
				return math.Hypot(x, y)
			}
			panic(pathEnd{status: stUnsupported, detail: "math.Hypot symbolic"})
		},
		"math.Pow": func(fr *frame, a []value) value {
			x, xok := a[0].(float64)
			y, yok := a[1].(float64)
			if xok && yok {
				return math.Pow(x, y)
			}
			panic(pathEnd{status: stUnsupported, detail: "math.Pow symbolic"})
		},
		"math.Pow10": func(fr *frame, a []value) value { return math.Pow10(int(asInt64(a[0]))) },
		"math.Log10": func(fr *frame, a []value) value { return math.Log10(a[0].(float64)) },
		"math.Log":   func(fr *frame, a []value) value { return math.Log(a[0].(float64)) },
		"math.Exp":   func(fr *frame, a []value) value { return math.Exp(a[0].(float64)) },
		"math.Mod": func(fr *frame, a []value) value {
			x, xok := a[0].(float64)
			y, yok := a[1].(float64)
			if xok && yok {
				return math.Mod(x, y)
			}
			panic(pathEnd{status: stUnsupported, detail: "math.Mod symbolic"})
		},
		"math.Inf": func(fr *frame, a []value) value { return math.Inf(int(asInt64(a[0]))) },
		"math.NaN": func(fr *frame, a []value) value { return math.NaN() },
		"math.IsNaN": func(fr *frame, a []value) value {
			if x, ok := a[0].(float64); ok {
				return math.IsNaN(x)
			}
			return false
		},
		"math.IsInf": func(fr *frame, a []value) value {
			if x, ok := a[0].(float64); ok {
				return math.IsInf(x, int(asInt64(a[1])))
			}
			return false
		},
		"math.Max": func(fr *frame, a []value) value {
			x, xok := a[0].(float64)
			y, yok := a[1].(float64)
			if xok && yok {
				return math.Max(x, y)
			}
			tx, ty := termOf(a[0], false), termOf(a[1], false)
			return mkScalar(sym.Ite(sym.Lt(tx, ty), ty, tx), types.Float64)
		},
		"math.Min": func(fr *frame, a []value) value {
			x, xok := a[0].(float64)
			y, yok := a[1].(float64)
			if xok && yok {
				return math.Min(x, y)
			}
			tx, ty := termOf(a[0], false), termOf(a[1], false)
			return mkScalar(sym.Ite(sym.Lt(ty, tx), ty, tx), types.Float64)
		},
		"math.Float64bits":     func(fr *frame, a []value) value { return math.Float64bits(a[0].(float64)) },
		"math.Float64frombits": func(fr *frame, a []value) value { return math.Float64frombits(a[0].(uint64)) },
		"math.Float32bits":     func(fr *frame, a []value) value { return math.Float32bits(a[0].(float32)) },
		"math.Float32frombits": func(fr *frame, a []value) value { return math.Float32frombits(a[0].(uint32)) },
		"math.Signbit": func(fr *frame, a []value) value {
			if x, ok := a[0].(float64); ok {
				return math.Signbit(x)
			}
			return mkScalar(sym.Lt(a[0].(sv).T, sym.RealConst(new(big.Rat))), types.Bool)
		},
		"math.Copysign": func(fr *frame, a []value) value { return math.Copysign(a[0].(float64), a[1].(float64)) },
		"math.Ldexp":    func(fr *frame, a []value) value { return math.Ldexp(a[0].(float64), int(asInt64(a[1]))) },
		"math.Modf": func(fr *frame, a []value) value {
			i, f := math.Modf(a[0].(float64))
			return tuple{i, f}
		},
		"math.Frexp": func(fr *frame, a []value) value {
			f, e := math.Frexp(a[0].(float64))
			return tuple{f, e}
		},

		// ---- sort ----
		"sort.Slice":       nativeSortSlice,
		"sort.SliceStable": nativeSortSlice,
		"sort.Ints": func(fr *frame, a []value) value {
			x := a[0].([]value)
			insertionSort(fr, len(x), func(i, j int) bool {
				return fr.decideV(binop(fr, tokenLSS, nil, x[i], x[j]))
			}, func(i, j int) {
				xi, xj := x[i], x[j]
				fr.i.set(&x[i], xj)
				fr.i.set(&x[j], xi)
			})
			return nil
		},
		"sort.Strings": func(fr *frame, a []value) value {
			x := a[0].([]value)
			insertionSort(fr, len(x), func(i, j int) bool {
				return fr.decideV(binop(fr, tokenLSS, nil, x[i], x[j]))
			}, func(i, j int) {
				xi, xj := x[i], x[j]
				fr.i.set(&x[i], xj)
				fr.i.set(&x[j], xi)
			})
			return nil
		},
	})
	_ = bytes.Equal
	_ = os.Stderr
	_ = sort.Ints
}

func nativeCompare(fr *frame, a []value) value {
	x, y := seqBytes(a[0]), seqBytes(a[1])
	if allConcrete([]value{x, y}) {
		return bytes.Compare(bytesOf(x), bytesOf(y))
	}
	xs, ys := mkStr(x), mkStr(y)
	if fr.decide(eqString(xs, ys)) {
		return 0
	}
	if fr.decide(ltString(xs, ys)) {
		return -1
	}
	return 1
}

func validUTF8(fr *frame, b []value) value {
	for i := 0; i < len(b); {
		r, n := decodeRune(fr, b[i:])
		if n == 1 {
			// RuneError with width 1 means invalid unless the byte is itself... (U+FFFD encodes on 3 bytes)
			if c, ok := r.(int32); ok && c == utf8.RuneError {
				return false
			}
		}
		i += n
	}
	return true
}

func insertionSort(fr *frame, n int, less func(i, j int) bool, swap func(i, j int)) {
	for i := 1; i < n; i++ {
		for j := i; j > 0 && less(j, j-1); j-- {
			swap(j, j-1)
		}
	}
}

func nativeSortSlice(fr *frame, a []value) value {
	it := a[0].(iface)
	x, _ := it.v.([]value)
	lessFn := a[1]
	elemT := it.t.Underlying().(*types.Slice).Elem()
	insertionSort(fr, len(x), func(i, j int) bool {
		return fr.decideV(call(fr.i, fr, 0, lessFn, []value{i, j}))
	}, func(i, j int) {
		xi, xj := copyVal(elemT, x[i]), copyVal(elemT, x[j])
		fr.i.store(elemT, &x[i], xj)
		fr.i.store(elemT, &x[j], xi)
	})
	return nil
}

// symParseFloat models strconv.ParseFloat on a symbolic string: the syntax is
// decided exactly (decimal floats without underscores, inf/nan and hex floats
// excluded by assumption), the value is an uninterpreted function of the bytes.
func symParseFloat(fr *frame, s *symstr, bits int) value {
	b := s.b
	isDigit := func(x value) *sym.Term { return inRange8(byteTerm(x), '0', '9') }
	isB := func(x value, c byte) *sym.Term { return sym.Eq(byteTerm(x), u8(uint64(c))) }
	fail := func() value {
		return tuple{float64(0), errorValue(fr, "strconv.ParseFloat: parsing ?: invalid syntax")}
	}
	i := 0
	n := len(b)
	if n == 0 {
		return fail()
	}
	// bytes outside [0-9+-.eE]: only inf / infinity / nan (any case, optional sign for inf) and hex floats are accepted
	var others []*sym.Term
	for _, x := range b {
		t := byteTerm(x)
		others = append(others, sym.And(sym.Not(inRange8(t, '0', '9')), sym.Not(sym.Eq(t, u8('+'))), sym.Not(sym.Eq(t, u8('-'))),
			sym.Not(sym.Eq(t, u8('.'))), sym.Not(sym.Eq(t, u8('e'))), sym.Not(sym.Eq(t, u8('E')))))
	}
	if fr.decide(sym.Or(others...)) {
		low := mkStr(mapBytes(b, lowerByte))
		for _, sp := range []struct {
			s string
			v float64
		}{{"inf", math.Inf(1)}, {"+inf", math.Inf(1)}, {"-inf", math.Inf(-1)}, {"infinity", math.Inf(1)}, {"+infinity", math.Inf(1)}, {"-infinity", math.Inf(-1)}, {"nan", math.NaN()}} {
			if len(sp.s) == n && fr.decide(eqString(low, sp.s)) {
				return tuple{sp.v, iface{}}
			}
		}
		// hex float: optional sign, then 0x / 0X
		k := 0
		if fr.decide(sym.Or(isB(b[0], '+'), isB(b[0], '-'))) {
			k = 1
		}
		// the shortest hexadecimal float is 0x1p0: shorter strings are syntax errors
		if n-k >= 5 && fr.decide(sym.And(isB(b[k], '0'), sym.Or(isB(b[k+1], 'x'), isB(b[k+1], 'X')))) {
			panic(pathEnd{status: stUnsupported, detail: "ParseFloat model: hexadecimal floats are not modelled"})
		}
		return fail()
	}
	if fr.decide(sym.Or(isB(b[i], '+'), isB(b[i], '-'))) {
		i++
	}
	digits := 0
	for i < n && fr.decide(isDigit(b[i])) {
		i++
		digits++
	}
	if i < n && fr.decide(isB(b[i], '.')) {
		i++
		for i < n && fr.decide(isDigit(b[i])) {
			i++
			digits++
		}
	}
	if digits == 0 {
		return fail()
	}
	if i < n && fr.decide(sym.Or(isB(b[i], 'e'), isB(b[i], 'E'))) {
		i++
		if i >= n {
			return fail()
		}
		if fr.decide(sym.Or(isB(b[i], '+'), isB(b[i], '-'))) {
			i++
		}
		ed := 0
		for i < n && fr.decide(isDigit(b[i])) {
			i++
			ed++
		}
		if ed == 0 {
			return fail()
		}
	}
	if i != n {
		return fail()
	}
	// value: uninterpreted function of the (padded) bytes and the length
	args := []*sym.Term{sym.BVConst(8, uint64(n))}
	sorts := []sym.Sort{sym.BV(8)}
	for k := 0; k < 8; k++ {
		if k < n {
			args = append(args, byteTerm(b[k]))
		} else {
			args = append(args, u8(0))
		}
		sorts = append(sorts, sym.BV(8))
	}
	if n > 8 {
		panic(pathEnd{status: stUnsupported, detail: "ParseFloat model: more than 8 symbolic bytes"})
	}
	u := sym.DeclareUF("uf_parsefloat", sorts, sym.Real)
	return tuple{mkScalar(sym.App(u, args...), types.Float64), iface{}}
}

func nativeIte(fr *frame, a []value) value {
	if c, ok := a[0].(bool); ok {
		if c {
			return a[1]
		}
		return a[2]
	}
	k := kindOf(a[1])
	im := isIntMode(a[1], a[2])
	return mkScalar(sym.Ite(a[0].(sv).T, termOf(a[1], im), termOf(a[2], im)), k)
}

func isSymInt(a value) bool {
	s, ok := a.(sv)
	return ok && kindIsInt(s.K) && s.T.Sort.K == sym.KBV
}

// symHex formats a non-negative symbolic integer in hexadecimal: the number of
// digits is decided by forking, each digit is a term.
func symHex(fr *frame, v sv, upper bool) []value {
	t := v.T
	w := t.Sort.W
	if kindSigned(v.K) {
		if fr.decide(sym.BVCmp(sym.OBVSlt, t, sym.BVConst(w, 0))) {
			panic(pathEnd{status: stUnsupported, detail: "hex formatting of a negative symbolic integer"})
		}
	}
	nd := 1
	for nd < w/4 {
		lim := sym.BVConst(w, uint64(1)<<uint(4*nd))
		if fr.decide(sym.BVCmp(sym.OBVUlt, t, lim)) {
			break
		}
		nd++
	}
	base := uint64('a')
	if upper {
		base = 'A'
	}
	out := make([]value, nd)
	for k := 0; k < nd; k++ {
		nib := sym.Extract(4*(nd-1-k)+3, 4*(nd-1-k), t)
		n8 := sym.ZeroExt(4, nib)
		ch := sym.Ite(sym.BVCmp(sym.OBVUlt, n8, u8(10)), sym.BVBin(sym.OBVAdd, n8, u8('0')), sym.BVBin(sym.OBVAdd, n8, u8(base-10)))
		out[k] = mkScalar(ch, types.Uint8)
	}
	return out
}

// concretizeBinary forks on the value of v by binary search (deterministic decision order).
func (fr *frame) concretizeBinary(v sv) int64 {
	w := v.T.Sort.W
	signed := kindSigned(v.K)
	var lo, hi int64
	if signed {
		lo, hi = -(int64(1) << uint(w-1)), int64(1)<<uint(w-1)-1
		if w == 64 {
			lo, hi = math.MinInt64, math.MaxInt64
		}
	} else {
		lo, hi = 0, int64(1)<<uint(w)-1
		if w >= 63 {
			hi = math.MaxInt64
			if fr.decide(sym.BVCmp(sym.OBVSlt, v.T, sym.BVConst(w, 0))) {
				panic(pathEnd{status: stUnsupported, detail: "concretising a huge unsigned value"})
			}
		}
	}
	for lo < hi {
		mid := lo + (hi-lo)/2
		var c *sym.Term
		if signed {
			c = sym.BVCmp(sym.OBVSle, v.T, sym.BVConst(w, uint64(mid)))
		} else {
			c = sym.BVCmp(sym.OBVUle, v.T, sym.BVConst(w, uint64(mid)))
		}
		if fr.decide(c) {
			hi = mid
		} else {
			lo = mid + 1
		}
	}
	return lo
}

func runeSetTerm(set string, r value) (*sym.Term, bool) {
	switch r := r.(type) {
	case int32:
		return sym.BoolConst(strings.ContainsRune(set, r)), true
	case sv:
		if r.T.Sort.K != sym.KBV || r.T.Sort.W != 32 {
			return nil, false
		}
		var alts []*sym.Term
		for _, c := range set {
			alts = append(alts, sym.Eq(r.T, sym.BVConst(32, uint64(uint32(c)))))
		}
		return sym.Or(alts...), true
	}
	return nil, false
}

func init() {
	regExt(map[string]externalFn{
		"unicode.ToLower": func(fr *frame, a []value) value {
			r, ok := a[0].(sv)
			if !ok {
				return fallThrough{}
			}
			if r.T.Sort.K != sym.KBV || r.T.Sort.W != 32 {
				return fallThrough{}
			}
			c32 := func(v uint64) *sym.Term { return sym.BVConst(32, v) }
			if !fr.decide(sym.BVCmp(sym.OBVUle, r.T, c32(0x7F))) {
				return fallThrough{}
			}
			up := sym.And(sym.BVCmp(sym.OBVUle, c32('A'), r.T), sym.BVCmp(sym.OBVUle, r.T, c32('Z')))
			return mkScalar(sym.Ite(up, sym.BVBin(sym.OBVAdd, r.T, c32(32)), r.T), types.Int32)
		},
		"unicode.ToUpper": func(fr *frame, a []value) value {
			r, ok := a[0].(sv)
			if !ok {
				return fallThrough{}
			}
			if r.T.Sort.K != sym.KBV || r.T.Sort.W != 32 {
				return fallThrough{}
			}
			c32 := func(v uint64) *sym.Term { return sym.BVConst(32, v) }
			if !fr.decide(sym.BVCmp(sym.OBVUle, r.T, c32(0x7F))) {
				return fallThrough{}
			}
			lo := sym.And(sym.BVCmp(sym.OBVUle, c32('a'), r.T), sym.BVCmp(sym.OBVUle, r.T, c32('z')))
			return mkScalar(sym.Ite(lo, sym.BVBin(sym.OBVSub, r.T, c32(32)), r.T), types.Int32)
		},
		"strings.ContainsRune": func(fr *frame, a []value) value {
			if set, ok := a[0].(string); ok {
				if t, ok := runeSetTerm(set, a[1]); ok {
					return mkScalar(t, types.Bool)
				}
			}
			return fallThrough{}
		},
		"bytes.ContainsRune": func(fr *frame, a []value) value {
			if b, ok := a[0].([]value); ok && seqIsConcrete(b) {
				if t, ok := runeSetTerm(string(bytesOf(b)), a[1]); ok {
					return mkScalar(t, types.Bool)
				}
			}
			return fallThrough{}
		},
		"strings.Repeat": func(fr *frame, a []value) value {
			n, ok := fr.concretize(a[1], 0, 64)
			if !ok {
				if s, isS := a[1].(sv); isS {
					if fr.decide(sym.BVCmp(sym.OBVSlt, s.T, sym.BVConst(s.T.Sort.W, 0))) {
						panic(targetPanic{iface{t: types.Typ[types.String], v: "strings: negative Repeat count"}})
					}
					panic(pathEnd{status: stUnsupported, detail: "strings.Repeat with a symbolic count above 64"})
				}
				return fallThrough{}
			}
			b := strBytes(a[0])
			out := make([]value, 0, len(b)*int(n))
			for k := int64(0); k < n; k++ {
				out = append(out, b...)
			}
			return mkStr(out)
		},
	})
}
