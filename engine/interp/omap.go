package interp

import (
	"go/types"

	"symgo/sym"
)

// omap is an insertion-ordered map whose keys may contain symbolic parts.
// Invariant: any two keys are distinct under the current path condition.
type oentry struct {
	key value
	val value
	sym bool
}

type omap struct {
	keyT types.Type
	ents []*oentry
	idx  map[int][]*oentry // concrete keys by hash
	nsym int
}

func makeMap(kt types.Type) *omap {
	return &omap{keyT: kt, idx: map[int][]*oentry{}}
}

func (m *omap) len() int {
	if m == nil {
		return 0
	}
	return len(m.ents)
}

// find returns the entry for k, forking on symbolic key equality.
func (m *omap) find(fr *frame, k value) *oentry {
	if m == nil {
		return nil
	}
	if !hasSym(k) {
		h := hash(m.keyT, k)
		for _, e := range m.idx[h] {
			if equalsConcrete2(m.keyT, e.key, k) {
				return e
			}
		}
		if m.nsym == 0 {
			return nil
		}
		for _, e := range m.ents {
			if e.sym {
				c := equalsT(m.keyT, e.key, k)
				if fr.decide(c) {
					return e
				}
			}
		}
		return nil
	}
	for _, e := range m.ents {
		c := equalsT(m.keyT, e.key, k)
		if c.IsFalse() {
			continue
		}
		if fr.decide(c) {
			return e
		}
	}
	return nil
}

func equalsConcrete2(t types.Type, x, y value) bool {
	r := equalsT(t, x, y)
	return r == sym.True
}

func (m *omap) insert(fr *frame, k, v value) {
	if e := m.find(fr, k); e != nil {
		old := e.val
		fr.i.logUndo(func() { e.val = old })
		e.val = v
		return
	}
	e := &oentry{key: k, val: v, sym: hasSym(k)}
	m.ents = append(m.ents, e)
	if e.sym {
		m.nsym++
	} else {
		h := hash(m.keyT, k)
		m.idx[h] = append(m.idx[h], e)
	}
	fr.i.logUndo(func() { m.remove(e) })
}

func (m *omap) remove(e *oentry) {
	for i, x := range m.ents {
		if x == e {
			m.ents = append(m.ents[:i:i], m.ents[i+1:]...)
			break
		}
	}
	if e.sym {
		m.nsym--
	} else {
		h := hash(m.keyT, e.key)
		b := m.idx[h]
		for i, x := range b {
			if x == e {
				m.idx[h] = append(b[:i:i], b[i+1:]...)
				break
			}
		}
	}
}

func (m *omap) delete(fr *frame, k value) {
	if m == nil {
		return
	}
	e := m.find(fr, k)
	if e == nil {
		return
	}
	pos := 0
	for i, x := range m.ents {
		if x == e {
			pos = i
		}
	}
	m.remove(e)
	fr.i.logUndo(func() {
		// re-insert at original position
		m.ents = append(m.ents, nil)
		copy(m.ents[pos+1:], m.ents[pos:])
		m.ents[pos] = e
		if e.sym {
			m.nsym++
		} else {
			h := hash(m.keyT, e.key)
			m.idx[h] = append(m.idx[h], e)
		}
	})
}

func (m *omap) clear(fr *frame) {
	if m == nil {
		return
	}
	oldEnts, oldIdx, oldN := m.ents, m.idx, m.nsym
	m.ents, m.idx, m.nsym = nil, map[int][]*oentry{}, 0
	fr.i.logUndo(func() { m.ents, m.idx, m.nsym = oldEnts, oldIdx, oldN })
}

func (m *omap) keys() []value {
	if m == nil {
		return nil
	}
	ks := make([]value, len(m.ents))
	for i, e := range m.ents {
		ks[i] = e.key
	}
	return ks
}
