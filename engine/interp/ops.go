// Derived from golang.org/x/tools/go/ssa/interp (BSD-style license, The Go
// Authors), extended for symbolic values.

package interp

import (
	"fmt"
	"go/token"
	"go/types"
	"os"
	"strings"

	"golang.org/x/tools/go/ssa"
	"symgo/sym"
)

// If the target program panics, the interpreter panics with this type.
type targetPanic struct {
	v value
}

func (p targetPanic) String() string {
	return toString(p.v)
}

// rtPanic is a Go run-time error raised by the target program (index out of
// range, nil dereference, integer division by zero, failed type assertion…).
type rtPanic string

// If the target program calls exit, the interpreter panics with this type.
type exitPanic int

// pathEnd terminates the current path for a reason that is not a target panic.
type pathStatus int

const (
	stOK pathStatus = iota
	stPanic
	stAssumeFalse  // infeasible / assumption violated: path silently dropped
	stUnsupported  // engine cannot execute this: inconclusive
	stBudget       // step or depth budget exceeded
	stIntOverflow  // int-mode value may leave its Go type's range: inconclusive
	stOutsideReal  // Inf/NaN territory in real mode: outside the claim, counted
	stSolverUnkown // solver answered unknown on a branch needed to continue
	stEngineError
	stStop // harness asked to stop the path (vx.Stop)
)

var statusNames = map[pathStatus]string{
	stOK: "ok", stPanic: "panic", stAssumeFalse: "assume-false", stUnsupported: "unsupported",
	stBudget: "budget-exceeded", stIntOverflow: "intmode-overflow", stOutsideReal: "outside-real-mode",
	stSolverUnkown: "solver-unknown", stEngineError: "engine-error", stStop: "stopped",
}

type pathEnd struct {
	status pathStatus
	detail string
}

func deref(t types.Type) types.Type {
	if p, ok := t.Underlying().(*types.Pointer); ok {
		return p.Elem()
	}
	panic(fmt.Sprintf("deref: not a pointer type: %v", t))
}

// concretize forks on the value of integer v within [lo, hi]; ok is false on
// the path where v is outside the range.
func (fr *frame) concretize(v value, lo, hi int64) (int64, bool) {
	s, isS := v.(sv)
	if !isS {
		n := asInt64(v)
		return n, n >= lo && n <= hi
	}
	im := s.T.Sort.K == sym.KInt
	mk := func(n int64) *sym.Term {
		if im {
			return sym.IntConst(n)
		}
		return sym.BVConst(s.T.Sort.W, uint64(n))
	}
	var in *sym.Term
	if im {
		in = sym.And(sym.Le(mk(lo), s.T), sym.Le(s.T, mk(hi)))
	} else if kindSigned(s.K) {
		in = sym.And(sym.BVCmp(sym.OBVSle, mk(lo), s.T), sym.BVCmp(sym.OBVSle, s.T, mk(hi)))
	} else {
		if lo < 0 {
			lo = 0
		}
		in = sym.And(sym.BVCmp(sym.OBVUle, mk(lo), s.T), sym.BVCmp(sym.OBVUle, s.T, mk(hi)))
	}
	if hi < lo || !fr.decide(in) {
		return 0, false
	}
	if hi-lo > 4096 {
		panic(pathEnd{status: stUnsupported, detail: fmt.Sprintf("concretising a symbolic integer over %d values", hi-lo+1)})
	}
	for c := lo; c < hi; c++ {
		if fr.decide(sym.Eq(s.T, mk(c))) {
			return c, true
		}
	}
	fr.assumeTrue(sym.Eq(s.T, mk(hi)))
	return hi, true
}

// slice returns x[lo:hi:max].  Any of lo, hi and max may be nil.
func slice(fr *frame, x, lo, hi, max value) value {
	var Len, Cap int
	switch x := x.(type) {
	case string:
		Len = len(x)
		Cap = Len
	case *symstr:
		Len = len(x.b)
		Cap = Len
	case []value:
		Len = len(x)
		Cap = cap(x)
	case *value: // *array
		if x == nil {
			panic(rtPanic("runtime error: invalid memory address or nil pointer dereference"))
		}
		a := (*x).(array)
		Len = len(a)
		Cap = cap(a)
	}

	oob := func() { panic(rtPanic("runtime error: slice bounds out of range")) }
	m := int64(Cap)
	if max != nil {
		var ok bool
		if m, ok = fr.concretize(max, 0, int64(Cap)); !ok {
			oob()
		}
	}
	h := int64(Len)
	if hi != nil {
		var ok bool
		if h, ok = fr.concretize(hi, 0, m); !ok {
			oob()
		}
	}
	l := int64(0)
	if lo != nil {
		var ok bool
		if l, ok = fr.concretize(lo, 0, h); !ok {
			oob()
		}
	}

	switch x := x.(type) {
	case string:
		return x[l:h]
	case *symstr:
		return mkStr(x.b[l:h])
	case []value:
		return x[l:h:m]
	case *value: // *array
		a := (*x).(array)
		return []value(a)[l:h:m]
	}
	panic(fmt.Sprintf("slice: unexpected X type: %T", x))
}

// lookup returns x[idx] where x is a map.
func lookup(fr *frame, instr *ssa.Lookup, x, idx value) value {
	switch x := x.(type) {
	case *omap:
		var v value
		ok := false
		if e := x.find(fr, idx); e != nil {
			v, ok = e.val, true
		}
		if !ok {
			v = zero(instr.X.Type().Underlying().(*types.Map).Elem())
		}
		if instr.CommaOk {
			v = tuple{v, ok}
		}
		return v
	}
	panic(fmt.Sprintf("unexpected x type in Lookup: %T", x))
}

func isStr(x value) bool {
	switch x.(type) {
	case string, *symstr:
		return true
	}
	return false
}

// binop implements all arithmetic and logical binary operators.
func binop(fr *frame, op token.Token, t types.Type, x, y value) value {
	_, xs := x.(sv)
	_, ys := y.(sv)
	if xs || ys {
		return symBinop(fr, op, x, y)
	}
	if isStr(x) && isStr(y) {
		_, xc := x.(string)
		_, yc := y.(string)
		if !(xc && yc) {
			switch op {
			case token.ADD:
				return concatStr(x, y)
			case token.EQL:
				return mkScalar(eqString(x, y), types.Bool)
			case token.NEQ:
				return mkScalar(sym.Not(eqString(x, y)), types.Bool)
			case token.LSS:
				return mkScalar(ltString(x, y), types.Bool)
			case token.GTR:
				return mkScalar(ltString(y, x), types.Bool)
			case token.LEQ:
				return mkScalar(sym.Not(ltString(y, x)), types.Bool)
			case token.GEQ:
				return mkScalar(sym.Not(ltString(x, y)), types.Bool)
			}
		}
	}
	switch op {
	case token.EQL:
		return mkScalar(eqnil(t, x, y), types.Bool)
	case token.NEQ:
		return mkScalar(sym.Not(eqnil(t, x, y)), types.Bool)
	case token.QUO, token.REM:
		if k := kindOfConcrete(y); kindIsInt(k) && asInt64(y) == 0 {
			panic(rtPanic("runtime error: integer divide by zero"))
		}
	case token.SHL, token.SHR:
		if k := kindOfConcrete(y); kindSigned(k) && asInt64(y) < 0 {
			panic(rtPanic("runtime error: negative shift amount"))
		}
	}
	return binopConcrete(op, t, x, y)
}

// eqnil returns the comparison x == y using the equivalence relation
// appropriate for type t.
func eqnil(t types.Type, x, y value) *sym.Term {
	if t != nil {
		switch t.Underlying().(type) {
		case *types.Map, *types.Signature, *types.Slice:
			// Since these types don't support comparison,
			// one of the operands must be a literal nil.
			switch x := x.(type) {
			case *omap:
				return sym.BoolConst((x != nil) == (y.(*omap) != nil))
			case *ssa.Function:
				switch y := y.(type) {
				case *ssa.Function:
					return sym.BoolConst((x != nil) == (y != nil))
				case *closure:
					return sym.BoolConst(x != nil)
				case *ssa.Builtin:
					return sym.BoolConst(x != nil)
				case nativeFn:
					return sym.BoolConst(x != nil)
				}
			case *closure:
				return sym.BoolConst(y.(*ssa.Function) != nil)
			case nativeFn:
				return sym.BoolConst(y.(*ssa.Function) != nil)
			case []value:
				return sym.BoolConst((x != nil) == (y.([]value) != nil))
			}
			panic(fmt.Sprintf("eqnil(%s): illegal dynamic type: %T", t, x))
		}
	}
	return equalsT(t, x, y)
}

func unop(fr *frame, instr *ssa.UnOp, x value) value {
	if s, ok := x.(sv); ok {
		return symUnop(instr.Op, s)
	}
	if instr.Op == token.MUL {
		switch x := x.(type) {
		case *value:
			if x == nil {
				panic(rtPanic("runtime error: invalid memory address or nil pointer dereference"))
			}
			return load(deref(instr.X.Type()), x)
		case symaddr:
			return fr.loadSym(deref(instr.X.Type()), x)
		}
	}
	return unopConcrete(instr, x)
}

// follow walks path below v.
func follow(v value, path []int) value {
	for _, k := range path {
		switch x := v.(type) {
		case structure:
			v = x[k]
		case array:
			v = x[k]
		default:
			panic(fmt.Sprintf("follow: %T", v))
		}
	}
	return v
}

func followAddr(p *value, path []int) *value {
	for _, k := range path {
		switch x := (*p).(type) {
		case structure:
			p = &x[k]
		case array:
			p = &x[k]
		default:
			panic(fmt.Sprintf("followAddr: %T", *p))
		}
	}
	return p
}

// mergeVals builds ite(idx==0, vals[0], ite(idx==1, vals[1], ...)) structurally;
// ok is false when the values do not have a common shape.
func mergeVals(vals []value, idx *sym.Term) (value, bool) {
	if len(vals) == 0 {
		return nil, false
	}
	sel := func(terms []*sym.Term) *sym.Term {
		res := terms[len(terms)-1]
		for i := len(terms) - 2; i >= 0; i-- {
			if terms[i] == res {
				continue
			}
			res = sym.Ite(sym.Eq(idx, sym.BVConst(64, uint64(i))), terms[i], res)
		}
		return res
	}
	switch v0 := vals[0].(type) {
	case string, *symstr:
		n := strLen(v0)
		same := true
		for _, v := range vals {
			if !isStr(v) || strLen(v) != n {
				return nil, false
			}
			if s0, ok := v0.(string); !ok || v != value(s0) {
				same = false
			}
		}
		if same {
			return v0, true
		}
		bs := make([][]value, len(vals))
		for i, v := range vals {
			bs[i] = strBytes(v)
		}
		out := make([]value, n)
		for k := 0; k < n; k++ {
			ts := make([]*sym.Term, len(vals))
			for i := range vals {
				ts[i] = byteTerm(bs[i][k])
			}
			out[k] = mkScalar(sel(ts), types.Uint8)
		}
		return mkStr(out), true
	case structure:
		out := make(structure, len(v0))
		for f := range v0 {
			fv := make([]value, len(vals))
			for i, v := range vals {
				s, ok := v.(structure)
				if !ok || len(s) != len(v0) {
					return nil, false
				}
				fv[i] = s[f]
			}
			m, ok := mergeVals(fv, idx)
			if !ok {
				return nil, false
			}
			out[f] = m
		}
		return out, true
	case array:
		out := make(array, len(v0))
		for f := range v0 {
			fv := make([]value, len(vals))
			for i, v := range vals {
				s, ok := v.(array)
				if !ok || len(s) != len(v0) {
					return nil, false
				}
				fv[i] = s[f]
			}
			m, ok := mergeVals(fv, idx)
			if !ok {
				return nil, false
			}
			out[f] = m
		}
		return out, true
	case iface:
		fv := make([]value, len(vals))
		for i, v := range vals {
			it, ok := v.(iface)
			if !ok || !sameType(it.t, v0.t) {
				return nil, false
			}
			fv[i] = it.v
		}
		if v0.t == nil {
			return v0, true
		}
		m, ok := mergeVals(fv, idx)
		if !ok {
			return nil, false
		}
		return iface{t: v0.t, v: m}, true
	}
	first := vals[0]
	if isScalarCell(first) {
		k := kindOf(first)
		im := false
		for _, v := range vals {
			if !isScalarCell(v) || kindOf(v) != k {
				return nil, false
			}
			if s, ok := v.(sv); ok && s.T.Sort.K == sym.KInt {
				im = true
			}
		}
		ts := make([]*sym.Term, len(vals))
		for i, v := range vals {
			ts[i] = termOf(v, im)
		}
		return mkScalar(sel(ts), k), true
	}
	// identical concrete references (same pointer, same func, nil slices…)
	for _, v := range vals[1:] {
		switch a := first.(type) {
		case *value:
			if b, ok := v.(*value); !ok || a != b {
				return nil, false
			}
		case []value:
			b, ok := v.([]value)
			if !ok || len(a) != 0 || len(b) != 0 || (a == nil) != (b == nil) {
				return nil, false
			}
		case *omap:
			if b, ok := v.(*omap); !ok || a != b {
				return nil, false
			}
		default:
			return nil, false
		}
	}
	return first, true
}

// resolveSym turns a symbolic address into a concrete one by forking on the index.
func (fr *frame) resolveSym(a symaddr) *value {
	w := a.idx.Sort.W
	c, ok := fr.concretize(sv{T: a.idx, K: types.Uint64}, 0, int64(len(a.cells)-1))
	_ = w
	if !ok {
		panic(rtPanic("runtime error: index out of range"))
	}
	return followAddr(&a.cells[c], a.path)
}

// loadSym reads through a symbolic index, merging the candidate cells when
// they share a shape and forking on the index otherwise.
func (fr *frame) loadSym(T types.Type, a symaddr) value {
	vals := make([]value, len(a.cells))
	for i, c := range a.cells {
		vals[i] = follow(c, a.path)
	}
	if m, ok := mergeVals(vals, a.idx); ok {
		return m
	}
	return load(T, fr.resolveSym(a))
}

func (fr *frame) storeSym(T types.Type, a symaddr, v value) {
	if isScalarCell(v) {
		allScalar := true
		for _, c := range a.cells {
			if !isScalarCell(follow(c, a.path)) {
				allScalar = false
			}
		}
		if allScalar {
			im := false
			if s, ok := v.(sv); ok && s.T.Sort.K == sym.KInt {
				im = true
			}
			nv := termOf(v, im)
			for k := range a.cells {
				p := followAddr(&a.cells[k], a.path)
				old := *p
				kd := kindOf(old)
				t := sym.Ite(sym.Eq(a.idx, sym.BVConst(64, uint64(k))), nv, termOf(old, im))
				fr.i.set(p, mkScalar(t, kd))
			}
			return
		}
	}
	fr.i.store(T, fr.resolveSym(a), v)
}

// typeAssert checks whether dynamic type of itf is instr.AssertedType.
func typeAssert(i *interpreter, instr *ssa.TypeAssert, itf iface) value {
	var v value
	err := ""
	if itf.t == nil {
		err = fmt.Sprintf("interface conversion: interface is nil, not %s", instr.AssertedType)

	} else if idst, ok := instr.AssertedType.Underlying().(*types.Interface); ok {
		v = itf
		err = checkInterface(i, idst, itf)

	} else if types.Identical(itf.t, instr.AssertedType) {
		v = itf.v // extract value

	} else {
		err = fmt.Sprintf("interface conversion: interface is %s, not %s", itf.t, instr.AssertedType)
	}

	if err != "" {
		if !instr.CommaOk {
			panic(rtPanic(err))
		}
		return tuple{zero(instr.AssertedType), false}
	}
	if instr.CommaOk {
		return tuple{v, true}
	}
	return v
}

func growCap(oldCap, needed int) int {
	newcap := oldCap
	doublecap := newcap + newcap
	if needed > doublecap {
		return needed
	}
	const threshold = 256
	if oldCap < threshold {
		if doublecap == 0 {
			return needed
		}
		return doublecap
	}
	for newcap < needed {
		newcap += (newcap + 3*threshold) / 4
	}
	return newcap
}

func needsCopy(t types.Type) bool {
	switch t.Underlying().(type) {
	case *types.Struct, *types.Array:
		return true
	}
	return false
}

// appendVals implements append(dst, src...) with Go's aliasing behaviour.
func (i *interpreter) appendVals(elemT types.Type, dst []value, src []value) []value {
	cp := needsCopy(elemT)
	n := len(dst) + len(src)
	if n <= cap(dst) {
		ext := dst[:n]
		for k := range src {
			v := src[k]
			if cp {
				v = copyVal(elemT, v)
			}
			i.set(&ext[len(dst)+k], v)
		}
		return ext
	}
	out := make([]value, n, growCap(cap(dst), n))
	// spare capacity is zero memory in Go: code may re-slice into it
	if spare := out[n:cap(out)]; len(spare) > 0 {
		for k := range spare {
			spare[k] = zero(elemT)
		}
	}
	copy(out, dst)
	for k := range src {
		v := src[k]
		if cp {
			v = copyVal(elemT, v)
		}
		out[len(dst)+k] = v
	}
	return out
}

// callBuiltin interprets a call to builtin fn with arguments args,
// returning its result.
func callBuiltin(caller *frame, callpos token.Pos, fn *ssa.Builtin, args []value) value {
	switch fn.Name() {
	case "append":
		if len(args) == 1 {
			return args[0]
		}
		elemT := fn.Type().(*types.Signature).Params().At(0).Type().Underlying().(*types.Slice).Elem()
		if isStr(args[1]) {
			// append([]byte, ...string) []byte
			return caller.i.appendVals(elemT, args[0].([]value), strBytes(args[1]))
		}
		// append([]T, ...[]T) []T
		src := args[1].([]value)
		if len(src) == 0 {
			return args[0]
		}
		return caller.i.appendVals(elemT, args[0].([]value), src)

	case "copy": // copy([]T, []T) int or copy([]byte, string) int
		var src []value
		if isStr(args[1]) {
			src = strBytes(args[1])
		} else {
			src = args[1].([]value)
		}
		dst := args[0].([]value)
		elemT := fn.Type().(*types.Signature).Params().At(0).Type().Underlying().(*types.Slice).Elem()
		n := len(dst)
		if len(src) < n {
			n = len(src)
		}
		if n == 0 {
			return 0
		}
		// handle overlap like memmove
		tmp := make([]value, n)
		for k := 0; k < n; k++ {
			tmp[k] = src[k]
			if needsCopy(elemT) {
				tmp[k] = copyVal(elemT, src[k])
			}
		}
		for k := 0; k < n; k++ {
			caller.i.set(&dst[k], tmp[k])
		}
		return n

	case "close": // close(chan T)
		close(args[0].(chan value))
		return nil

	case "delete": // delete(map[K]value, K)
		args[0].(*omap).delete(caller, args[1])
		return nil

	case "clear":
		switch x := args[0].(type) {
		case *omap:
			x.clear(caller)
		case []value:
			elemT := fn.Type().(*types.Signature).Params().At(0).Type().Underlying().(*types.Slice).Elem()
			for k := range x {
				caller.i.set(&x[k], zero(elemT))
			}
		}
		return nil

	case "print", "println": // print(any, ...)
		if caller.i.quietPrint {
			return nil
		}
		ln := fn.Name() == "println"
		var buf []byte
		for i, arg := range args {
			if i > 0 && ln {
				buf = append(buf, ' ')
			}
			buf = append(buf, toString(arg)...)
		}
		if ln {
			buf = append(buf, '\n')
		}
		os.Stderr.Write(buf)
		return nil

	case "len":
		switch x := args[0].(type) {
		case string:
			return len(x)
		case *symstr:
			return len(x.b)
		case array:
			return len(x)
		case *value:
			return len((*x).(array))
		case []value:
			return len(x)
		case *omap:
			return x.len()
		case chan value:
			return len(x)
		default:
			panic(fmt.Sprintf("len: illegal operand: %T", x))
		}

	case "cap":
		switch x := args[0].(type) {
		case array:
			return cap(x)
		case *value:
			return cap((*x).(array))
		case []value:
			return cap(x)
		case chan value:
			return cap(x)
		default:
			panic(fmt.Sprintf("cap: illegal operand: %T", x))
		}

	case "min":
		return foldLeft(func(a, b value) value { return minmax(caller, a, b, true) }, args)
	case "max":
		return foldLeft(func(a, b value) value { return minmax(caller, a, b, false) }, args)

	case "real":
		switch c := args[0].(type) {
		case complex64:
			return real(c)
		case complex128:
			return real(c)
		default:
			panic(fmt.Sprintf("real: illegal operand: %T", c))
		}

	case "imag":
		switch c := args[0].(type) {
		case complex64:
			return imag(c)
		case complex128:
			return imag(c)
		default:
			panic(fmt.Sprintf("imag: illegal operand: %T", c))
		}

	case "complex":
		switch f := args[0].(type) {
		case float32:
			return complex(f, args[1].(float32))
		case float64:
			return complex(f, args[1].(float64))
		default:
			panic(fmt.Sprintf("complex: illegal operand: %T", f))
		}

	case "panic":
		// ssa.Panic handles most cases; this is only for "go
		// panic" or "defer panic".
		panic(targetPanic{args[0]})

	case "recover":
		return doRecover(caller)

	case "ssa:wrapnilchk":
		recv := args[0]
		if recv.(*value) == nil {
			recvType := args[1]
			methodName := args[2]
			panic(rtPanic(fmt.Sprintf("value method (%s).%s called using nil *%s pointer",
				recvType, methodName, recvType)))
		}
		return recv

	case "ssa:deferstack":
		return &caller.defers
	}

	panic("unknown built-in: " + fn.Name())
}

func minmax(fr *frame, x, y value, isMin bool) value {
	if isSym(x) || isSym(y) {
		if isStr(x) {
			panic(pathEnd{status: stUnsupported, detail: "min/max of symbolic strings"})
		}
		lt := binop(fr, token.LSS, nil, y, x) // y < x
		if !isMin {
			lt = binop(fr, token.GTR, nil, y, x)
		}
		k := kindOf(x)
		im := isIntMode(x, y)
		c := termOf(lt, false)
		return mkScalar(sym.Ite(c, termOf(y, im), termOf(x, im)), k)
	}
	if isMin {
		return min(x, y)
	}
	return max(x, y)
}

func rangeIter(fr *frame, x value, t types.Type) iter {
	switch x := x.(type) {
	case *omap:
		keys := x.keys()
		if fr.i.ex != nil && fr.i.ex.mapOrderSymbolic && len(keys) > 1 &&
			(fr.i.ex.mapOrderIn == "" || (fr.fn != nil && strings.Contains(fr.fn.String(), fr.i.ex.mapOrderIn))) {
			keys = fr.i.ex.permute(fr, keys)
		}
		return &mapIter{m: x, keys: keys}
	case string, *symstr:
		return &stringIter{s: x}
	}
	panic(fmt.Sprintf("cannot range over %T", x))
}

// conv converts the value x of type t_src to type t_dst and returns the result.
func conv(fr *frame, t_dst, t_src types.Type, x value) value {
	ut_src := t_src.Underlying()
	ut_dst := t_dst.Underlying()

	switch x := x.(type) {
	case sv:
		if db, ok := ut_dst.(*types.Basic); ok {
			if db.Kind() == types.String {
				// string(rune)
				r := x
				if x.K != types.Int32 {
					r32 := symConvScalar(fr, types.Int32, x)
					if c, ok := r32.(int32); ok {
						return string(c)
					}
					r = r32.(sv)
				}
				return mkStr(encodeRune(fr, r))
			}
			return symConvScalar(fr, basicKind(t_dst), x)
		}
	case *symstr:
		switch ut_dst := ut_dst.(type) {
		case *types.Basic:
			if ut_dst.Kind() == types.String {
				return x
			}
		case *types.Slice:
			switch ut_dst.Elem().Underlying().(*types.Basic).Kind() {
			case types.Byte:
				out := make([]value, len(x.b))
				copy(out, x.b)
				return out
			case types.Rune:
				var out []value
				for i := 0; i < len(x.b); {
					r, n := decodeRune(fr, x.b[i:])
					out = append(out, r)
					i += n
				}
				return out
			}
		}
	case []value:
		if ss, ok := ut_src.(*types.Slice); ok {
			if db, ok := ut_dst.(*types.Basic); ok && db.Kind() == types.String {
				switch ss.Elem().Underlying().(*types.Basic).Kind() {
				case types.Byte:
					return mkStr(x)
				case types.Rune:
					var out []value
					for _, r := range x {
						out = append(out, encodeRune(fr, r)...)
					}
					return mkStr(out)
				}
			}
		}
	}
	return convConcrete(t_dst, t_src, x)
}

// sliceToArrayPointer converts the value x of type slice to type t_dst
// a pointer to array and returns the result.
func sliceToArrayPointer(t_dst, t_src types.Type, x value) value {
	if _, ok := t_src.Underlying().(*types.Slice); ok {
		if ptr, ok := t_dst.Underlying().(*types.Pointer); ok {
			if arr, ok := ptr.Elem().Underlying().(*types.Array); ok {
				x := x.([]value)
				if arr.Len() > int64(len(x)) {
					panic(rtPanic("runtime error: cannot convert slice to array pointer: length too short"))
				}
				if x == nil {
					return zero(t_dst)
				}
				v := value(array(x[:arr.Len()]))
				return &v
			}
		}
	}

	panic(fmt.Sprintf("unsupported conversion: %s  -> %s, dynamic type %T", t_src, t_dst, x))
}

// checkInterface checks that the method set of x implements the
// interface itype.
func checkInterface(i *interpreter, itype *types.Interface, x iface) string {
	if meth, _ := types.MissingMethod(x.t, itype, true); meth != nil {
		return fmt.Sprintf("interface conversion: %v is not %v: missing method %s",
			x.t, itype, meth.Name())
	}
	return "" // ok
}

func foldLeft(op func(value, value) value, args []value) value {
	x := args[0]
	for _, arg := range args[1:] {
		x = op(x, arg)
	}
	return x
}

func min(x, y value) value {
	switch x := x.(type) {
	case float32:
		return fmin(x, y.(float32))
	case float64:
		return fmin(x, y.(float64))
	}
	if binopConcrete(token.LSS, nil, y, x).(bool) {
		return y
	}
	return x
}

func max(x, y value) value {
	switch x := x.(type) {
	case float32:
		return fmax(x, y.(float32))
	case float64:
		return fmax(x, y.(float64))
	}
	if binopConcrete(token.GTR, nil, y, x).(bool) {
		return y
	}
	return x
}
