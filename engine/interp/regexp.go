package interp

// Model of package regexp: patterns are compiled natively (real
// regexp/syntax); matching on concrete input uses the real matcher, matching
// on symbolic bytes runs a prioritised backtracking VM over the compiled
// syntax.Prog (leftmost-first semantics, as Go's regexp), forking on byte
// class tests.

import (
	"go/types"
	"regexp"
	"regexp/syntax"
	"unicode"
	"unicode/utf8"

	"symgo/sym"
)

type rxModel struct {
	re   *regexp.Regexp
	prog *syntax.Prog
	ncap int
}

func newRx(fr *frame, pat string) (*rxModel, error) {
	re, err := regexp.Compile(pat)
	if err != nil {
		return nil, err
	}
	parsed, err := syntax.Parse(pat, syntax.Perl)
	if err != nil {
		return nil, err
	}
	ncap := parsed.MaxCap()
	prog, err := syntax.Compile(parsed.Simplify())
	if err != nil {
		return nil, err
	}
	return &rxModel{re: re, prog: prog, ncap: ncap}, nil
}

func rxOf(v value) *rxModel {
	p := v.(*value)
	if p == nil {
		nilDeref()
	}
	return (*p).(opaque).v.(*rxModel)
}

func rxValue(m *rxModel) value {
	var cell value = opaque{v: m}
	return &cell
}

// runeClassTerm returns the condition "rune term r (BV32) is matched by inst".
func runeClassTerm(inst *syntax.Inst, r *sym.Term) *sym.Term {
	c32 := func(v rune) *sym.Term { return sym.BVConst(32, uint64(uint32(v))) }
	inR := func(lo, hi rune) *sym.Term {
		if lo == hi {
			return sym.Eq(r, c32(lo))
		}
		return sym.And(sym.BVCmp(sym.OBVSle, c32(lo), r), sym.BVCmp(sym.OBVSle, r, c32(hi)))
	}
	switch inst.Op {
	case syntax.InstRuneAny:
		return sym.True
	case syntax.InstRuneAnyNotNL:
		return sym.Not(sym.Eq(r, c32('\n')))
	}
	rs := inst.Rune
	fold := syntax.Flags(inst.Arg)&syntax.FoldCase != 0
	if len(rs) == 1 {
		r0 := rs[0]
		alts := []*sym.Term{sym.Eq(r, c32(r0))}
		if fold {
			for r1 := unicode.SimpleFold(r0); r1 != r0; r1 = unicode.SimpleFold(r1) {
				alts = append(alts, sym.Eq(r, c32(r1)))
			}
		}
		return sym.Or(alts...)
	}
	var alts []*sym.Term
	for k := 0; k+1 < len(rs); k += 2 {
		alts = append(alts, inR(rs[k], rs[k+1]))
	}
	return sym.Or(alts...)
}

type rxInput struct {
	fr    *frame
	b     []value
	runes map[int]rxRune // decoded rune per position (memoised per path)
}

type rxRune struct {
	r value
	w int
}

func (in *rxInput) step(pos int) (value, int) {
	if pos >= len(in.b) {
		return int32(-1), 0
	}
	if rr, ok := in.runes[pos]; ok {
		return rr.r, rr.w
	}
	r, w := decodeRune(in.fr, in.b[pos:])
	in.runes[pos] = rxRune{r, w}
	return r, w
}

func isWordTerm(b value) *sym.Term {
	t := byteTerm(b)
	return sym.Or(inRange8(t, 'a', 'z'), inRange8(t, 'A', 'Z'), inRange8(t, '0', '9'), sym.Eq(t, u8('_')))
}

// emptyOK decides whether the zero-width assertions op hold at pos.
func (in *rxInput) emptyOK(op syntax.EmptyOp, pos int) bool {
	fr := in.fr
	n := len(in.b)
	if op&syntax.EmptyBeginText != 0 && pos != 0 {
		return false
	}
	if op&syntax.EmptyEndText != 0 && pos != n {
		return false
	}
	if op&syntax.EmptyBeginLine != 0 && pos != 0 {
		if !fr.decide(sym.Eq(byteTerm(in.b[pos-1]), u8('\n'))) {
			return false
		}
	}
	if op&syntax.EmptyEndLine != 0 && pos != n {
		if !fr.decide(sym.Eq(byteTerm(in.b[pos]), u8('\n'))) {
			return false
		}
	}
	if op&(syntax.EmptyWordBoundary|syntax.EmptyNoWordBoundary) != 0 {
		before, after := sym.False, sym.False
		if pos > 0 {
			before = isWordTerm(in.b[pos-1])
		}
		if pos < n {
			after = isWordTerm(in.b[pos])
		}
		boundary := fr.decide(sym.Not(sym.Eq(before, after)))
		if op&syntax.EmptyWordBoundary != 0 && !boundary {
			return false
		}
		if op&syntax.EmptyNoWordBoundary != 0 && boundary {
			return false
		}
	}
	return true
}

// matchAt runs the backtracking VM from pos; it returns the capture array or nil.
func (m *rxModel) matchAt(in *rxInput, start int) []int {
	ncap := 2 * (m.ncap + 1)
	caps := make([]int, ncap)
	for k := range caps {
		caps[k] = -1
	}
	visited := map[[2]int]bool{}
	budget := 200000
	var run func(pc, pos int) bool
	run = func(pc, pos int) bool {
		for {
			budget--
			if budget < 0 {
				panic(pathEnd{status: stBudget, detail: "regexp model step budget"})
			}
			inst := &m.prog.Inst[pc]
			switch inst.Op {
			case syntax.InstFail:
				return false
			case syntax.InstMatch:
				caps[1] = pos
				return true
			case syntax.InstNop:
				pc = int(inst.Out)
			case syntax.InstCapture:
				if int(inst.Arg) < len(caps) {
					old := caps[inst.Arg]
					caps[inst.Arg] = pos
					if run(int(inst.Out), pos) {
						return true
					}
					caps[inst.Arg] = old
					return false
				}
				pc = int(inst.Out)
			case syntax.InstEmptyWidth:
				if !in.emptyOK(syntax.EmptyOp(inst.Arg), pos) {
					return false
				}
				pc = int(inst.Out)
			case syntax.InstAlt, syntax.InstAltMatch:
				key := [2]int{pc, pos}
				if visited[key] {
					return false
				}
				visited[key] = true
				if run(int(inst.Out), pos) {
					return true
				}
				pc = int(inst.Arg)
			case syntax.InstRune, syntax.InstRune1, syntax.InstRuneAny, syntax.InstRuneAnyNotNL:
				r, w := in.step(pos)
				if w == 0 {
					return false
				}
				var ok bool
				switch r := r.(type) {
				case int32:
					ok = inst.MatchRune(r)
				case sv:
					ok = in.fr.decide(runeClassTerm(inst, r.T))
				}
				if !ok {
					return false
				}
				pos += w
				pc = int(inst.Out)
			default:
				panic(pathEnd{status: stUnsupported, detail: "regexp instruction " + inst.Op.String()})
			}
		}
	}
	caps[0] = start
	if run(m.prog.Start, start) {
		return caps
	}
	return nil
}

// find returns the leftmost-first match at or after from.
func (m *rxModel) find(fr *frame, b []value, from int, in *rxInput) []int {
	if in == nil {
		in = &rxInput{fr: fr, b: b, runes: map[int]rxRune{}}
	}
	anchored := m.prog.StartCond()&syntax.EmptyBeginText != 0
	for start := from; start <= len(b); {
		if anchored && start != 0 {
			return nil
		}
		if caps := m.matchAt(in, start); caps != nil {
			return caps
		}
		if start == len(b) {
			break
		}
		_, w := in.step(start)
		if w == 0 {
			w = 1
		}
		start += w
	}
	return nil
}

func seqIsConcrete(b []value) bool {
	for _, x := range b {
		if _, ok := x.(uint8); !ok {
			return false
		}
	}
	return true
}

func intsValue(xs []int) value {
	if xs == nil {
		return []value(nil)
	}
	out := make([]value, len(xs))
	for i, x := range xs {
		out[i] = x
	}
	return out
}

func (m *rxModel) findIndex(fr *frame, b []value) []int {
	if seqIsConcrete(b) {
		return m.re.FindSubmatchIndex(bytesOf(b))
	}
	return m.find(fr, b, 0, nil)
}

// replaceAll implements ReplaceAllString without $-expansion in repl
// (callers check that repl has no '$').
func (m *rxModel) replaceAll(fr *frame, src []value, repl []value) []value {
	in := &rxInput{fr: fr, b: src, runes: map[int]rxRune{}}
	var out []value
	lastMatchEnd := 0
	searchPos := 0
	for searchPos <= len(src) {
		a := m.find(fr, src, searchPos, in)
		if a == nil {
			break
		}
		out = append(out, src[lastMatchEnd:a[0]]...)
		if a[1] > lastMatchEnd || a[0] == 0 {
			out = append(out, repl...)
		}
		lastMatchEnd = a[1]
		_, width := in.step(searchPos)
		if searchPos+width > a[1] {
			searchPos += width
		} else if searchPos+1 > a[1] {
			searchPos++
		} else {
			searchPos = a[1]
		}
	}
	out = append(out, src[lastMatchEnd:]...)
	return out
}

func init() {
	compile := func(fr *frame, a []value, must bool) value {
		pat, ok := a[0].(string)
		if !ok {
			panic(pathEnd{status: stUnsupported, detail: "regexp.Compile of a symbolic pattern"})
		}
		m, err := newRx(fr, pat)
		if err != nil {
			if must {
				panic(targetPanic{iface{t: types.Typ[types.String], v: "regexp: Compile(" + pat + "): " + err.Error()}})
			}
			return tuple{(*value)(nil), errorValue(fr, err.Error())}
		}
		if must {
			return rxValue(m)
		}
		return tuple{rxValue(m), iface{}}
	}
	subs := func(b []value, caps []int, asString bool) value {
		if caps == nil {
			return []value(nil)
		}
		out := make([]value, len(caps)/2)
		for k := range out {
			lo, hi := caps[2*k], caps[2*k+1]
			if lo < 0 {
				if asString {
					out[k] = ""
				} else {
					out[k] = []value(nil)
				}
				continue
			}
			if asString {
				out[k] = mkStr(b[lo:hi])
			} else {
				out[k] = b[lo:hi:hi]
			}
		}
		return out
	}
	regExt(map[string]externalFn{
		"regexp.MustCompile":      func(fr *frame, a []value) value { return compile(fr, a, true) },
		"regexp.Compile":          func(fr *frame, a []value) value { return compile(fr, a, false) },
		"(*regexp.Regexp).String": func(fr *frame, a []value) value { return rxOf(a[0]).re.String() },
		"(*regexp.Regexp).SubexpNames": func(fr *frame, a []value) value {
			ns := rxOf(a[0]).re.SubexpNames()
			out := make([]value, len(ns))
			for i, x := range ns {
				out[i] = x
			}
			return out
		},
		"(*regexp.Regexp).NumSubexp": func(fr *frame, a []value) value { return rxOf(a[0]).re.NumSubexp() },
		"(*regexp.Regexp).MatchString": func(fr *frame, a []value) value {
			return rxOf(a[0]).findIndex(fr, strBytes(a[1])) != nil
		},
		"(*regexp.Regexp).Match": func(fr *frame, a []value) value {
			return rxOf(a[0]).findIndex(fr, a[1].([]value)) != nil
		},
		"(*regexp.Regexp).FindIndex": func(fr *frame, a []value) value {
			c := rxOf(a[0]).findIndex(fr, a[1].([]value))
			if c == nil {
				return []value(nil)
			}
			return intsValue(c[:2])
		},
		"(*regexp.Regexp).FindStringIndex": func(fr *frame, a []value) value {
			c := rxOf(a[0]).findIndex(fr, strBytes(a[1]))
			if c == nil {
				return []value(nil)
			}
			return intsValue(c[:2])
		},
		"(*regexp.Regexp).FindSubmatch": func(fr *frame, a []value) value {
			b := a[1].([]value)
			return subs(b, rxOf(a[0]).findIndex(fr, b), false)
		},
		"(*regexp.Regexp).FindStringSubmatch": func(fr *frame, a []value) value {
			b := strBytes(a[1])
			return subs(b, rxOf(a[0]).findIndex(fr, b), true)
		},
		"(*regexp.Regexp).FindString": func(fr *frame, a []value) value {
			b := strBytes(a[1])
			c := rxOf(a[0]).findIndex(fr, b)
			if c == nil {
				return ""
			}
			return mkStr(b[c[0]:c[1]])
		},
		"(*regexp.Regexp).ReplaceAllString": func(fr *frame, a []value) value {
			m := rxOf(a[0])
			repl, ok := a[2].(string)
			if s, isC := a[1].(string); isC && ok {
				return m.re.ReplaceAllString(s, repl)
			}
			if !ok {
				panic(pathEnd{status: stUnsupported, detail: "regexp replace with symbolic replacement"})
			}
			for k := 0; k < len(repl); k++ {
				if repl[k] == '$' {
					panic(pathEnd{status: stUnsupported, detail: "regexp replace template with $ on symbolic input"})
				}
			}
			return mkStr(m.replaceAll(fr, strBytes(a[1]), strBytes(repl)))
		},
		"(*regexp.Regexp).FindAllString": func(fr *frame, a []value) value {
			m := rxOf(a[0])
			s, ok := a[1].(string)
			if !ok {
				panic(pathEnd{status: stUnsupported, detail: "regexp FindAllString on symbolic input"})
			}
			r := m.re.FindAllString(s, int(asInt64(a[2])))
			if r == nil {
				return []value(nil)
			}
			out := make([]value, len(r))
			for i, x := range r {
				out[i] = x
			}
			return out
		},
	})
	_ = utf8.RuneError
}
