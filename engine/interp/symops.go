package interp

import (
	"fmt"
	"go/token"
	"go/types"
	"math"
	"math/big"

	"symgo/sym"
)

// ---- kinds ----

func kindBits(k types.BasicKind) int {
	switch k {
	case types.Int8, types.Uint8:
		return 8
	case types.Int16, types.Uint16:
		return 16
	case types.Int32, types.Uint32:
		return 32
	case types.Int, types.Int64, types.Uint, types.Uint64, types.Uintptr:
		return 64
	}
	return 0
}

func kindSigned(k types.BasicKind) bool {
	switch k {
	case types.Int, types.Int8, types.Int16, types.Int32, types.Int64:
		return true
	}
	return false
}

func kindIsInt(k types.BasicKind) bool   { return kindBits(k) != 0 }
func kindIsFloat(k types.BasicKind) bool { return k == types.Float32 || k == types.Float64 }

func kindRange(k types.BasicKind) (lo, hi *big.Int) {
	w := uint(kindBits(k))
	if kindSigned(k) {
		hi = new(big.Int).Lsh(big.NewInt(1), w-1)
		lo = new(big.Int).Neg(hi)
		hi.Sub(hi, big.NewInt(1))
		return
	}
	lo = big.NewInt(0)
	hi = new(big.Int).Lsh(big.NewInt(1), w)
	hi.Sub(hi, big.NewInt(1))
	return
}

func basicKind(t types.Type) types.BasicKind {
	if b, ok := t.Underlying().(*types.Basic); ok {
		k := b.Kind()
		switch k {
		case types.UntypedInt:
			return types.Int
		case types.UntypedRune:
			return types.Int32
		case types.UntypedFloat:
			return types.Float64
		case types.UntypedBool:
			return types.Bool
		case types.UntypedString:
			return types.String
		}
		return k
	}
	return types.Invalid
}

func kindOfConcrete(x value) types.BasicKind {
	switch x.(type) {
	case bool:
		return types.Bool
	case int:
		return types.Int
	case int8:
		return types.Int8
	case int16:
		return types.Int16
	case int32:
		return types.Int32
	case int64:
		return types.Int64
	case uint:
		return types.Uint
	case uint8:
		return types.Uint8
	case uint16:
		return types.Uint16
	case uint32:
		return types.Uint32
	case uint64:
		return types.Uint64
	case uintptr:
		return types.Uintptr
	case float32:
		return types.Float32
	case float64:
		return types.Float64
	case string:
		return types.String
	}
	return types.Invalid
}

func kindOf(x value) types.BasicKind {
	if s, ok := x.(sv); ok {
		return s.K
	}
	return kindOfConcrete(x)
}

// concreteOfKind builds a concrete Go value of kind k from an int64/uint64 bit pattern.
func concreteOfKind(k types.BasicKind, u uint64) value {
	switch k {
	case types.Bool:
		return u != 0
	case types.Int:
		return int(u)
	case types.Int8:
		return int8(u)
	case types.Int16:
		return int16(u)
	case types.Int32:
		return int32(u)
	case types.Int64:
		return int64(u)
	case types.Uint:
		return uint(u)
	case types.Uint8:
		return uint8(u)
	case types.Uint16:
		return uint16(u)
	case types.Uint32:
		return uint32(u)
	case types.Uint64:
		return uint64(u)
	case types.Uintptr:
		return uintptr(u)
	}
	panic(fmt.Sprintf("concreteOfKind: %v", k))
}

// mkScalar wraps term t of kind k, concretising constants.
func mkScalar(t *sym.Term, k types.BasicKind) value {
	if t.IsConst() {
		switch t.Sort.K {
		case sym.KBool:
			return t.U != 0
		case sym.KBV:
			return concreteOfKind(k, uint64(t.SignedVal()))
		case sym.KInt:
			if kindIsInt(k) && t.N.IsInt() {
				lo, hi := kindRange(k)
				n := t.N.Num()
				if n.Cmp(lo) >= 0 && n.Cmp(hi) <= 0 {
					if kindSigned(k) {
						return concreteOfKind(k, uint64(n.Int64()))
					}
					return concreteOfKind(k, n.Uint64())
				}
			}
		case sym.KReal:
			// keep exact rationals symbolic-constant unless exactly representable
			f, exact := t.N.Float64()
			if k == types.Float64 && exact {
				return f
			}
			if k == types.Float32 {
				f32, exact32 := t.N.Float32()
				if exact32 {
					return f32
				}
			}
		}
	}
	return sv{T: t, K: k}
}

// termOf returns the SMT term of scalar x. Integers become BV terms unless
// wantInt is set (int mode), floats become Real terms.
func termOf(x value, wantInt bool) *sym.Term {
	switch x := x.(type) {
	case sv:
		if wantInt && x.T.Sort.K == sym.KBV {
			return bvToInt(x.T, x.K)
		}
		return x.T
	case bool:
		return sym.BoolConst(x)
	case float32:
		return realOfFloat(float64(x))
	case float64:
		return realOfFloat(x)
	}
	k := kindOfConcrete(x)
	if kindIsInt(k) {
		if wantInt {
			if kindSigned(k) {
				return sym.IntConst(asInt64(x))
			}
			return sym.IntConstBig(new(big.Int).SetUint64(uint64(asInt64(x))))
		}
		return sym.BVConst(kindBits(k), uint64(asInt64(x)))
	}
	panic(fmt.Sprintf("termOf: unsupported %T", x))
}

func realOfFloat(f float64) *sym.Term {
	if math.IsInf(f, 0) || math.IsNaN(f) {
		panic(pathEnd{status: stOutsideReal, detail: "non-finite float constant meets a symbolic real"})
	}
	return sym.RealConstF(f)
}

func isIntMode(x, y value) bool {
	if s, ok := x.(sv); ok && s.T.Sort.K == sym.KInt {
		return true
	}
	if s, ok := y.(sv); ok && s.T.Sort.K == sym.KInt {
		return true
	}
	return false
}

func eqScalar(x sv, y value) *sym.Term {
	im := isIntMode(x, y)
	return sym.Eq(termOf(x, im), termOf(y, im))
}

// ---- binary operators on symbolic scalars ----

// symBinop implements binop when x or y is an sv. kx is the static kind of x.
func symBinop(fr *frame, op token.Token, x, y value) value {
	k := kindOf(x)
	if k == types.Invalid {
		k = kindOf(y)
	}
	switch {
	case k == types.Bool:
		a, b := termOf(x, false), termOf(y, false)
		switch op {
		case token.EQL:
			return mkScalar(sym.Eq(a, b), types.Bool)
		case token.NEQ:
			return mkScalar(sym.Not(sym.Eq(a, b)), types.Bool)
		}
	case kindIsFloat(k):
		return symFloatBinop(fr, op, k, x, y)
	case kindIsInt(k):
		if isIntMode(x, y) {
			return symIntModeBinop(fr, op, k, x, y)
		}
		return symBVBinop(fr, op, k, x, y)
	}
	panic(fmt.Sprintf("symBinop: invalid %T %s %T", x, op, y))
}

func symBVBinop(fr *frame, op token.Token, k types.BasicKind, x, y value) value {
	w := kindBits(k)
	signed := kindSigned(k)
	a := termOf(x, false)
	if op == token.SHL || op == token.SHR {
		// y may have a different integer kind
		ky := kindOf(y)
		b := termOf(y, false)
		if b.Sort.K != sym.KBV {
			panic(pathEnd{status: stUnsupported, detail: "int-mode shift count"})
		}
		if kindSigned(ky) {
			neg := sym.BVCmp(sym.OBVSlt, b, sym.BVConst(b.Sort.W, 0))
			if fr.decide(neg) {
				panic(rtPanic("runtime error: negative shift amount"))
			}
		}
		// resize count to w bits, saturating
		wb := b.Sort.W
		var cnt *sym.Term
		big := sym.False
		if wb > w {
			big = sym.Not(sym.Eq(sym.Extract(wb-1, w, b), sym.BVConst(wb-w, 0)))
			cnt = sym.Extract(w-1, 0, b)
		} else {
			cnt = sym.ZeroExt(w-wb, b)
		}
		// SMT bvshl/bvlshr/bvashr already saturate for counts >= w
		var r *sym.Term
		switch {
		case op == token.SHL:
			r = sym.Ite(big, sym.BVConst(w, 0), sym.BVBin(sym.OBVShl, a, cnt))
		case signed:
			r = sym.BVBin(sym.OBVAShr, a, sym.Ite(big, sym.BVConst(w, uint64(w)), cnt))
		default:
			r = sym.Ite(big, sym.BVConst(w, 0), sym.BVBin(sym.OBVLShr, a, cnt))
		}
		return mkScalar(r, k)
	}
	b := termOf(y, false)
	if a.Sort != b.Sort {
		panic(fmt.Sprintf("symBVBinop: sort mismatch %v %v (%T %s %T)", a.Sort, b.Sort, x, op, y))
	}
	bin := func(o sym.Op) value { return mkScalar(sym.BVBin(o, a, b), k) }
	cmp := func(so, uo sym.Op, swap, neg bool) value {
		o := uo
		if signed {
			o = so
		}
		var t *sym.Term
		if swap {
			t = sym.BVCmp(o, b, a)
		} else {
			t = sym.BVCmp(o, a, b)
		}
		if neg {
			t = sym.Not(t)
		}
		return mkScalar(t, types.Bool)
	}
	switch op {
	case token.ADD:
		return bin(sym.OBVAdd)
	case token.SUB:
		return bin(sym.OBVSub)
	case token.MUL:
		return bin(sym.OBVMul)
	case token.QUO, token.REM:
		if fr.decide(sym.Eq(b, sym.BVConst(w, 0))) {
			panic(rtPanic("runtime error: integer divide by zero"))
		}
		if op == token.QUO {
			if signed {
				return bin(sym.OBVSDiv)
			}
			return bin(sym.OBVUDiv)
		}
		if signed {
			return bin(sym.OBVSRem)
		}
		return bin(sym.OBVURem)
	case token.AND:
		return bin(sym.OBVAnd)
	case token.OR:
		return bin(sym.OBVOr)
	case token.XOR:
		return bin(sym.OBVXor)
	case token.AND_NOT:
		return mkScalar(sym.BVBin(sym.OBVAnd, a, sym.BVNot(b)), k)
	case token.EQL:
		return mkScalar(sym.Eq(a, b), types.Bool)
	case token.NEQ:
		return mkScalar(sym.Not(sym.Eq(a, b)), types.Bool)
	case token.LSS:
		return cmp(sym.OBVSlt, sym.OBVUlt, false, false)
	case token.LEQ:
		return cmp(sym.OBVSle, sym.OBVUle, false, false)
	case token.GTR:
		return cmp(sym.OBVSlt, sym.OBVUlt, true, false)
	case token.GEQ:
		return cmp(sym.OBVSle, sym.OBVUle, true, false)
	}
	panic(fmt.Sprintf("symBVBinop: invalid op %s", op))
}

// checkIntRange ends the path (outside the int-mode claim) if r can leave the range of kind k.
func checkIntRange(fr *frame, r *sym.Term, k types.BasicKind) {
	if r.IsConst() {
		lo, hi := kindRange(k)
		if n := r.N.Num(); n.Cmp(lo) >= 0 && n.Cmp(hi) <= 0 {
			return
		}
	}
	lo, hi := kindRange(k)
	if bl, bh, ok := sym.Bounds(r, map[*sym.Term]*[2]*big.Int{}); ok && bl.Cmp(lo) >= 0 && bh.Cmp(hi) <= 0 {
		return
	}
	in := sym.And(sym.Le(sym.IntConstBig(lo), r), sym.Le(r, sym.IntConstBig(hi)))
	if !fr.decide(in) {
		panic(pathEnd{status: stIntOverflow, detail: "integer overflow possible in int mode"})
	}
}

func symIntModeBinop(fr *frame, op token.Token, k types.BasicKind, x, y value) value {
	a, b := termOf(x, true), termOf(y, true)
	res := func(t *sym.Term) value {
		checkIntRange(fr, t, k)
		return mkScalar(t, k)
	}
	zero := sym.IntConst(0)
	switch op {
	case token.ADD:
		return res(sym.Arith(sym.OAdd, a, b))
	case token.SUB:
		return res(sym.Arith(sym.OSub, a, b))
	case token.MUL:
		return res(sym.Arith(sym.OMul, a, b))
	case token.QUO, token.REM:
		if fr.decide(sym.Eq(b, zero)) {
			panic(rtPanic("runtime error: integer divide by zero"))
		}
		q := sym.Arith(sym.OIDiv, a, b)
		r := sym.Arith(sym.OMod, a, b)
		exact := sym.Or(sym.Le(zero, a), sym.Eq(r, zero))
		bpos := sym.Lt(zero, b)
		one := sym.IntConst(1)
		if op == token.QUO {
			tq := sym.Ite(exact, q, sym.Ite(bpos, sym.Arith(sym.OAdd, q, one), sym.Arith(sym.OSub, q, one)))
			return res(tq)
		}
		tr := sym.Ite(exact, r, sym.Ite(bpos, sym.Arith(sym.OSub, r, b), sym.Arith(sym.OAdd, r, b)))
		return res(tr)
	case token.EQL:
		return mkScalar(sym.Eq(a, b), types.Bool)
	case token.NEQ:
		return mkScalar(sym.Not(sym.Eq(a, b)), types.Bool)
	case token.LSS:
		return mkScalar(sym.Lt(a, b), types.Bool)
	case token.LEQ:
		return mkScalar(sym.Le(a, b), types.Bool)
	case token.GTR:
		return mkScalar(sym.Lt(b, a), types.Bool)
	case token.GEQ:
		return mkScalar(sym.Le(b, a), types.Bool)
	}
	panic(pathEnd{status: stUnsupported, detail: "int-mode operator " + op.String()})
}

// infSign returns +1 / -1 when v is a concrete infinity.
func infSign(v value) int {
	var f float64
	switch v := v.(type) {
	case float32:
		f = float64(v)
	case float64:
		f = v
	default:
		return 0
	}
	if math.IsInf(f, 1) {
		return 1
	}
	if math.IsInf(f, -1) {
		return -1
	}
	return 0
}

func symFloatBinop(fr *frame, op token.Token, k types.BasicKind, x, y value) value {
	// comparisons of a (finite) symbolic real with a concrete infinity are decided directly
	if sx, sy := infSign(x), infSign(y); sx != 0 || sy != 0 {
		lt := (sy > 0 && sx == 0) || (sx < 0 && sy == 0) // x < y
		gt := (sy < 0 && sx == 0) || (sx > 0 && sy == 0) // x > y
		switch op {
		case token.LSS:
			return lt
		case token.LEQ:
			return lt
		case token.GTR:
			return gt
		case token.GEQ:
			return gt
		case token.EQL:
			return false
		case token.NEQ:
			return true
		case token.ADD:
			// infinity plus a finite real
			if sx != 0 && sy == 0 {
				return x
			}
			if sy != 0 && sx == 0 {
				return y
			}
		case token.SUB:
			if sx != 0 && sy == 0 {
				return x
			}
			if sy != 0 && sx == 0 {
				if k == types.Float32 {
					return float32(math.Inf(-sy))
				}
				return math.Inf(-sy)
			}
		}
	}
	a, b := termOf(x, false), termOf(y, false)
	switch op {
	case token.ADD:
		return mkScalar(sym.Arith(sym.OAdd, a, b), k)
	case token.SUB:
		return mkScalar(sym.Arith(sym.OSub, a, b), k)
	case token.MUL:
		return mkScalar(sym.Arith(sym.OMul, a, b), k)
	case token.QUO:
		if fr.decide(sym.Eq(b, sym.RealConst(new(big.Rat)))) {
			panic(pathEnd{status: stOutsideReal, detail: "float division by zero (Inf/NaN are outside the real-mode claim)"})
		}
		return mkScalar(sym.Arith(sym.ODiv, a, b), k)
	case token.EQL:
		return mkScalar(sym.Eq(a, b), types.Bool)
	case token.NEQ:
		return mkScalar(sym.Not(sym.Eq(a, b)), types.Bool)
	case token.LSS:
		return mkScalar(sym.Lt(a, b), types.Bool)
	case token.LEQ:
		return mkScalar(sym.Le(a, b), types.Bool)
	case token.GTR:
		return mkScalar(sym.Lt(b, a), types.Bool)
	case token.GEQ:
		return mkScalar(sym.Le(b, a), types.Bool)
	}
	panic(fmt.Sprintf("symFloatBinop: invalid op %s", op))
}

func symUnop(op token.Token, x sv) value {
	switch op {
	case token.NOT:
		return mkScalar(sym.Not(x.T), types.Bool)
	case token.SUB:
		switch x.T.Sort.K {
		case sym.KBV:
			return mkScalar(sym.BVNeg(x.T), x.K)
		default:
			return mkScalar(sym.Neg(x.T), x.K)
		}
	case token.XOR:
		if x.T.Sort.K == sym.KBV {
			return mkScalar(sym.BVNot(x.T), x.K)
		}
	}
	panic(pathEnd{status: stUnsupported, detail: "symbolic unary op " + op.String()})
}

// symConvScalar converts symbolic scalar x to basic kind kd.
func symConvScalar(fr *frame, kd types.BasicKind, x sv) value {
	ks := x.K
	t := x.T
	switch {
	case kindIsInt(ks) && kindIsInt(kd):
		if t.Sort.K == sym.KInt {
			// int mode: value-preserving only
			checkIntRange(fr, t, kd)
			return mkScalar(t, kd)
		}
		ws, wd := kindBits(ks), kindBits(kd)
		switch {
		case wd == ws:
			return mkScalar(t, kd)
		case wd < ws:
			return mkScalar(sym.Extract(wd-1, 0, t), kd)
		case kindSigned(ks):
			return mkScalar(sym.SignExt(wd-ws, t), kd)
		default:
			return mkScalar(sym.ZeroExt(wd-ws, t), kd)
		}
	case kindIsFloat(ks) && kindIsFloat(kd):
		// real mode: float32<->float64 is the identity (rounding outside the claim)
		return mkScalar(t, kd)
	case kindIsInt(ks) && kindIsFloat(kd):
		if t.Sort.K == sym.KInt {
			return mkScalar(sym.ToReal(t), kd)
		}
		panic(pathEnd{status: stUnsupported, detail: "bit-vector integer to float conversion (use int mode)"})
	case kindIsFloat(ks) && kindIsInt(kd):
		// truncation toward zero, result in int mode
		zero := sym.RealConst(new(big.Rat))
		fl := sym.ToInt(t)
		ce := sym.Neg(sym.ToInt(sym.Neg(t)))
		r := sym.Ite(sym.Le(zero, t), fl, ce)
		checkIntRange(fr, r, kd)
		return mkScalar(r, kd)
	}
	panic(pathEnd{status: stUnsupported, detail: fmt.Sprintf("symbolic conversion %v -> %v", ks, kd)})
}

// bvToInt is the mathematical value of bit-vector t read with kind k's signedness.
func bvToInt(t *sym.Term, k types.BasicKind) *sym.Term {
	w := t.Sort.W
	// strip zero extension: same unsigned value
	inner := t
	for inner.Op == sym.OZeroExt {
		inner = inner.Args[0]
	}
	n := sym.BV2Nat(inner)
	if !kindSigned(k) {
		return n
	}
	_, hi := sym.URange(t)
	if w <= 64 && hi < uint64(1)<<uint(w-1) {
		return n // sign bit known clear
	}
	full := sym.BV2Nat(t)
	two := new(big.Int).Lsh(big.NewInt(1), uint(w))
	neg := sym.BVCmp(sym.OBVSlt, t, sym.BVConst(w, 0))
	return sym.Ite(neg, sym.Arith(sym.OSub, full, sym.IntConstBig(two)), full)
}
