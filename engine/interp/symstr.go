package interp

import (
	"go/types"
	"unicode/utf8"

	"symgo/sym"
)

// ---- strings with symbolic bytes ----

func strLen(s value) int {
	switch s := s.(type) {
	case string:
		return len(s)
	case *symstr:
		return len(s.b)
	}
	panic("strLen: not a string")
}

// strBytes returns the bytes of s as []value (uint8 or sv); callers must not mutate it.
func strBytes(s value) []value {
	switch s := s.(type) {
	case string:
		out := make([]value, len(s))
		for i := 0; i < len(s); i++ {
			out[i] = s[i]
		}
		return out
	case *symstr:
		return s.b
	}
	panic("strBytes: not a string")
}

// mkStr builds a string value from bytes (copied), concrete when possible.
func mkStr(b []value) value {
	conc := true
	for _, x := range b {
		if _, ok := x.(uint8); !ok {
			conc = false
			break
		}
	}
	if conc {
		bs := make([]byte, len(b))
		for i, x := range b {
			bs[i] = x.(uint8)
		}
		return string(bs)
	}
	cp := make([]value, len(b))
	for i, x := range b {
		// normalise constant svs
		if s, ok := x.(sv); ok && s.T.IsConst() {
			x = uint8(s.T.U)
		}
		cp[i] = x
	}
	return &symstr{b: cp}
}

func byteTerm(b value) *sym.Term {
	switch b := b.(type) {
	case uint8:
		return sym.BVConst(8, uint64(b))
	case sv:
		if b.T.Sort.K == sym.KInt {
			return sym.Int2BV(8, b.T)
		}
		return b.T
	}
	panic("byteTerm: not a byte")
}

func eqString(x, y value) *sym.Term {
	if strLen(x) != strLen(y) {
		return sym.False
	}
	xb, yb := strBytes(x), strBytes(y)
	conj := make([]*sym.Term, 0, len(xb))
	for i := range xb {
		c := sym.Eq(byteTerm(xb[i]), byteTerm(yb[i]))
		if c.IsFalse() {
			return sym.False
		}
		conj = append(conj, c)
	}
	return sym.And(conj...)
}

// ltString returns the term for x < y (lexicographic, bytewise).
func ltString(x, y value) *sym.Term {
	xb, yb := strBytes(x), strBytes(y)
	n := len(xb)
	if len(yb) < n {
		n = len(yb)
	}
	// from the end: result if all of the first n bytes are equal
	res := sym.BoolConst(len(xb) < len(yb))
	for i := n - 1; i >= 0; i-- {
		a, b := byteTerm(xb[i]), byteTerm(yb[i])
		res = sym.Ite(sym.BVCmp(sym.OBVUlt, a, b), sym.True, sym.Ite(sym.Eq(a, b), res, sym.False))
	}
	return res
}

func concatStr(x, y value) value {
	if xs, ok := x.(string); ok {
		if ys, ok := y.(string); ok {
			return xs + ys
		}
	}
	xb, yb := strBytes(x), strBytes(y)
	out := make([]value, 0, len(xb)+len(yb))
	out = append(out, xb...)
	out = append(out, yb...)
	return mkStr(out)
}

func sliceStr(s value, l, h int) value {
	switch s := s.(type) {
	case string:
		return s[l:h]
	case *symstr:
		return mkStr(s.b[l:h])
	}
	panic("sliceStr")
}

func u8(v uint64) *sym.Term { return sym.BVConst(8, v) }

func inRange8(b *sym.Term, lo, hi uint64) *sym.Term {
	return sym.And(sym.BVCmp(sym.OBVUle, u8(lo), b), sym.BVCmp(sym.OBVUle, b, u8(hi)))
}

func z32(b *sym.Term) *sym.Term { return sym.ZeroExt(24, b) }

func shl32(t *sym.Term, n uint64) *sym.Term {
	return sym.BVBin(sym.OBVShl, t, sym.BVConst(32, n))
}

func and8(b *sym.Term, m uint64) *sym.Term { return sym.BVBin(sym.OBVAnd, b, u8(m)) }

// decodeRune implements utf8.DecodeRune on possibly symbolic bytes, forking on
// the encoding class. It returns the rune (int32 or sv) and the width.
func decodeRune(fr *frame, p []value) (value, int) {
	if len(p) == 0 {
		return utf8.RuneError, 0
	}
	// fully concrete prefix?
	n := len(p)
	if n > 4 {
		n = 4
	}
	var buf [4]byte
	conc := 0
	for i := 0; i < n; i++ {
		c, ok := p[i].(uint8)
		if !ok {
			break
		}
		buf[i] = c
		conc++
	}
	if conc == n || (conc >= 1 && buf[0] < 0x80) {
		r, sz := utf8.DecodeRune(buf[:conc])
		return r, sz
	}
	if conc >= 1 {
		// lead byte is concrete: if the needed continuation bytes are concrete, decode natively
		need := 1
		switch {
		case buf[0] >= 0xF0:
			need = 4
		case buf[0] >= 0xE0:
			need = 3
		case buf[0] >= 0xC0:
			need = 2
		}
		if need <= conc {
			r, sz := utf8.DecodeRune(buf[:conc])
			return r, sz
		}
	}
	b0 := byteTerm(p[0])
	if fr.decide(sym.BVCmp(sym.OBVUlt, b0, u8(0x80))) {
		return mkScalar(z32(b0), types.Int32), 1
	}
	cont := func(i int) *sym.Term { return inRange8(byteTerm(p[i]), 0x80, 0xBF) }
	if len(p) >= 2 {
		b1 := byteTerm(p[1])
		if fr.decide(sym.And(inRange8(b0, 0xC2, 0xDF), cont(1))) {
			r := sym.BVBin(sym.OBVOr, shl32(z32(and8(b0, 0x1F)), 6), z32(and8(b1, 0x3F)))
			return mkScalar(r, types.Int32), 2
		}
		if len(p) >= 3 {
			b2 := byteTerm(p[2])
			c3 := sym.And(sym.Or(
				sym.And(sym.Eq(b0, u8(0xE0)), inRange8(b1, 0xA0, 0xBF)),
				sym.And(sym.Or(inRange8(b0, 0xE1, 0xEC), inRange8(b0, 0xEE, 0xEF)), inRange8(b1, 0x80, 0xBF)),
				sym.And(sym.Eq(b0, u8(0xED)), inRange8(b1, 0x80, 0x9F)),
			), cont(2))
			if fr.decide(c3) {
				r := sym.BVBin(sym.OBVOr, sym.BVBin(sym.OBVOr, shl32(z32(and8(b0, 0x0F)), 12), shl32(z32(and8(b1, 0x3F)), 6)), z32(and8(b2, 0x3F)))
				return mkScalar(r, types.Int32), 3
			}
			if len(p) >= 4 {
				b3 := byteTerm(p[3])
				c4 := sym.And(sym.Or(
					sym.And(sym.Eq(b0, u8(0xF0)), inRange8(b1, 0x90, 0xBF)),
					sym.And(inRange8(b0, 0xF1, 0xF3), inRange8(b1, 0x80, 0xBF)),
					sym.And(sym.Eq(b0, u8(0xF4)), inRange8(b1, 0x80, 0x8F)),
				), cont(2), cont(3))
				if fr.decide(c4) {
					r := sym.BVBin(sym.OBVOr, sym.BVBin(sym.OBVOr, sym.BVBin(sym.OBVOr,
						shl32(z32(and8(b0, 0x07)), 18), shl32(z32(and8(b1, 0x3F)), 12)),
						shl32(z32(and8(b2, 0x3F)), 6)), z32(and8(b3, 0x3F)))
					return mkScalar(r, types.Int32), 4
				}
			}
		}
	}
	return utf8.RuneError, 1
}

// decodeLastRune implements utf8.DecodeLastRune.
func decodeLastRune(fr *frame, p []value) (value, int) {
	end := len(p)
	if end == 0 {
		return utf8.RuneError, 0
	}
	if c, ok := p[end-1].(uint8); ok && c < 0x80 {
		return rune(c), 1
	}
	if _, ok := p[end-1].(sv); ok {
		if fr.decide(sym.BVCmp(sym.OBVUlt, byteTerm(p[end-1]), u8(0x80))) {
			return mkScalar(z32(byteTerm(p[end-1])), types.Int32), 1
		}
	}
	lim := end - utf8.UTFMax
	if lim < 0 {
		lim = 0
	}
	start := end - 1
	for start--; start >= lim; start-- {
		// RuneStart: not a continuation byte
		isStart := sym.Not(inRange8(byteTerm(p[start]), 0x80, 0xBF))
		if fr.decide(isStart) {
			break
		}
	}
	if start < 0 {
		start = 0
	}
	r, size := decodeRune(fr, p[start:end])
	if start+size != end {
		return utf8.RuneError, 1
	}
	return r, size
}

// encodeRune implements utf8.AppendRune(nil, r) on a possibly symbolic rune.
func encodeRune(fr *frame, r value) []value {
	if c, ok := r.(int32); ok {
		var buf [4]byte
		n := utf8.EncodeRune(buf[:], c)
		out := make([]value, n)
		for i := 0; i < n; i++ {
			out[i] = buf[i]
		}
		return out
	}
	t := r.(sv).T
	if t.Sort.K != sym.KBV || t.Sort.W != 32 {
		panic(pathEnd{status: stUnsupported, detail: "encodeRune of non-32-bit symbolic value"})
	}
	c32 := func(v uint64) *sym.Term { return sym.BVConst(32, v) }
	ult := func(v uint64) *sym.Term { return sym.BVCmp(sym.OBVUlt, t, c32(v)) } // unsigned: negatives are huge
	lo8 := func(x *sym.Term) value { return mkScalar(sym.Extract(7, 0, x), types.Uint8) }
	shr := func(n uint64) *sym.Term { return sym.BVBin(sym.OBVLShr, t, c32(n)) }
	or := func(x *sym.Term, v uint64) *sym.Term { return sym.BVBin(sym.OBVOr, x, c32(v)) }
	and := func(x *sym.Term, v uint64) *sym.Term { return sym.BVBin(sym.OBVAnd, x, c32(v)) }
	if fr.decide(ult(0x80)) {
		return []value{lo8(t)}
	}
	if fr.decide(ult(0x800)) {
		return []value{lo8(or(shr(6), 0xC0)), lo8(or(and(t, 0x3F), 0x80))}
	}
	bad := sym.Or(sym.Not(ult(0x110000)), sym.And(sym.Not(ult(0xD800)), ult(0xE000)))
	if fr.decide(bad) {
		return []value{uint8(0xEF), uint8(0xBF), uint8(0xBD)}
	}
	if fr.decide(ult(0x10000)) {
		return []value{lo8(or(shr(12), 0xE0)), lo8(or(and(shr(6), 0x3F), 0x80)), lo8(or(and(t, 0x3F), 0x80))}
	}
	return []value{lo8(or(shr(18), 0xF0)), lo8(or(and(shr(12), 0x3F), 0x80)), lo8(or(and(shr(6), 0x3F), 0x80)), lo8(or(and(t, 0x3F), 0x80))}
}
