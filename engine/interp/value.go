// Derived from golang.org/x/tools/go/ssa/interp (BSD-style license, The Go
// Authors), extended with symbolic scalar values for symgo.

package interp

// Values
//
// All interpreter values are "boxed" in the empty interface, value.
// The range of possible dynamic types within value are:
//
// - bool, numbers (all built-in int/float/complex types are distinguished), string
// - sv        --- a symbolic scalar (bool / integer / float) carrying an SMT term
// - *symstr   --- a string of concrete length whose bytes may be symbolic
// - *omap     --- maps (insertion ordered)
// - chan value
// - []value --- slices
// - iface --- interfaces.
// - structure --- structs.  Fields are ordered and accessed by numeric indices.
// - array --- arrays.
// - *value --- pointers.
// - symaddr --- address of a slice/array cell selected by a symbolic index
// - *ssa.Function, *ssa.Builtin, *closure --- functions.
// - tuple --- as returned by Return, Next, "value,ok" modes, etc.
// - iter --- iterators from 'range' over map or string.
// - bad --- a poison pill for locals that have gone out of scope.

import (
	"bytes"
	"fmt"
	"go/types"
	"os"
	"unsafe"

	"golang.org/x/tools/go/ssa"
	"golang.org/x/tools/go/types/typeutil"
	"symgo/sym"
)

type value interface{}

var debugValues = os.Getenv("SYMGO_DEBUG") != ""

type tuple []value

type array []value

type iface struct {
	t types.Type // never an "untyped" type
	v value
}

type structure []value

// sv is a symbolic scalar of Go basic kind K.
type sv struct {
	T *sym.Term
	K types.BasicKind
}

// symstr is a string with concrete length; each element is a uint8 or an sv of kind Uint8.
type symstr struct {
	b []value
}

// symaddr is &cells[idx] for a symbolic idx known to be within range.
type symaddr struct {
	cells []value
	idx   *sym.Term // BV64, known to be < len(cells)
	path  []int     // struct field / array index path below the selected cell
}

// For map, array, *array, slice, string or channel.
type iter interface {
	// next returns a Tuple (key, value, ok).
	next(fr *frame) tuple
}

type closure struct {
	Fn  *ssa.Function
	Env []value
}

type bad struct{}

// native Go payload carried opaquely through interpreted code (compiled
// regexps, etc.)
type opaque struct {
	v interface{}
}

// hashString computes the FNV hash of s.
func hashString(s string) int {
	var h uint32
	for i := 0; i < len(s); i++ {
		h ^= uint32(s[i])
		h *= 16777619
	}
	return int(h)
}

var hasher = typeutil.MakeHasher()

func hashType(t types.Type) int {
	return int(hasher.Hash(t))
}

// nil-tolerant variant of types.Identical.
func sameType(x, y types.Type) bool {
	if x == nil {
		return y == nil
	}
	return y != nil && types.Identical(x, y)
}

// isSym reports whether the scalar/string value is symbolic.
func isSym(x value) bool {
	switch x.(type) {
	case sv, *symstr:
		return true
	}
	return false
}

// hasSym reports whether x (deeply, through structs/arrays/ifaces, not
// through pointers) contains a symbolic part.
func hasSym(x value) bool {
	switch x := x.(type) {
	case sv, *symstr:
		return true
	case structure:
		for _, e := range x {
			if hasSym(e) {
				return true
			}
		}
	case array:
		for _, e := range x {
			if hasSym(e) {
				return true
			}
		}
	case iface:
		return hasSym(x.v)
	}
	return false
}

// equalsT returns the term for x == y (Go's equivalence for type t), or a
// constant term when both are concrete.
func equalsT(t types.Type, x, y value) *sym.Term {
	switch x := x.(type) {
	case sv:
		return eqScalar(x, y)
	case *symstr:
		return eqString(x, y)
	case string:
		if _, ok := y.(*symstr); ok {
			return eqString(x, y)
		}
		return sym.BoolConst(x == y.(string))
	case structure:
		y := y.(structure)
		tStruct := t.Underlying().(*types.Struct)
		conj := sym.True
		for i, n := 0, tStruct.NumFields(); i < n; i++ {
			if f := tStruct.Field(i); f.Name() != "_" {
				conj = sym.And(conj, equalsT(f.Type(), x[i], y[i]))
				if conj.IsFalse() {
					return conj
				}
			}
		}
		return conj
	case array:
		y := y.(array)
		tElt := t.Underlying().(*types.Array).Elem()
		conj := sym.True
		for i, xi := range x {
			conj = sym.And(conj, equalsT(tElt, xi, y[i]))
			if conj.IsFalse() {
				return conj
			}
		}
		return conj
	case iface:
		y := y.(iface)
		if !sameType(x.t, y.t) {
			return sym.False
		}
		if x.t == nil {
			return sym.True
		}
		return equalsT(x.t, x.v, y.v)
	}
	if _, ok := y.(sv); ok {
		return eqScalar(y.(sv), x)
	}
	return sym.BoolConst(equalsConcrete(t, x, y))
}

// equals returns true iff x and y are equal; it requires a concrete outcome.
func equals(t types.Type, x, y value) bool {
	r := equalsT(t, x, y)
	if r.IsConst() {
		return r.IsTrue()
	}
	panic(pathEnd{status: stUnsupported, detail: "symbolic equality where a concrete result is required"})
}

func equalsConcrete(t types.Type, x, y value) bool {
	switch x := x.(type) {
	case bool:
		return x == y.(bool)
	case int:
		return x == y.(int)
	case int8:
		return x == y.(int8)
	case int16:
		return x == y.(int16)
	case int32:
		return x == y.(int32)
	case int64:
		return x == y.(int64)
	case uint:
		return x == y.(uint)
	case uint8:
		return x == y.(uint8)
	case uint16:
		return x == y.(uint16)
	case uint32:
		return x == y.(uint32)
	case uint64:
		return x == y.(uint64)
	case uintptr:
		return x == y.(uintptr)
	case float32:
		return x == y.(float32)
	case float64:
		return x == y.(float64)
	case complex64:
		return x == y.(complex64)
	case complex128:
		return x == y.(complex128)
	case string:
		return x == y.(string)
	case *value:
		return x == y.(*value)
	case chan value:
		return x == y.(chan value)
	case opaque:
		return x == y.(opaque)
	case unsafe.Pointer:
		return x == y.(unsafe.Pointer)
	}
	// Since map, func and slice don't support comparison, this
	// case is only reachable if one of x or y is literally nil
	// (handled in eqnil) or via interface{} values.
	if debugValues {
		panic(rtPanic(fmt.Sprintf("runtime error: comparing uncomparable type %s (%T=%s vs %T=%s)", t, x, toString(x), y, toString(y))))
	}
	panic(rtPanic(fmt.Sprintf("runtime error: comparing uncomparable type %s", t)))
}

// hash returns an integer hash of a concrete x such that equals(x, y) => hash(x) == hash(y).
func hash(t types.Type, x value) int {
	switch x := x.(type) {
	case bool:
		if x {
			return 1
		}
		return 0
	case int:
		return x
	case int8:
		return int(x)
	case int16:
		return int(x)
	case int32:
		return int(x)
	case int64:
		return int(x)
	case uint:
		return int(x)
	case uint8:
		return int(x)
	case uint16:
		return int(x)
	case uint32:
		return int(x)
	case uint64:
		return int(x)
	case uintptr:
		return int(x)
	case float32:
		return int(x)
	case float64:
		return int(x)
	case complex64:
		return int(real(x))
	case complex128:
		return int(real(x))
	case string:
		return hashString(x)
	case *value:
		return int(uintptr(unsafe.Pointer(x)))
	case chan value:
		return 7
	case structure:
		tStruct := t.Underlying().(*types.Struct)
		h := 0
		for i, n := 0, tStruct.NumFields(); i < n; i++ {
			if f := tStruct.Field(i); f.Name() != "_" {
				h = h*31 + hash(f.Type(), x[i])
			}
		}
		return h
	case array:
		h := 0
		tElt := t.Underlying().(*types.Array).Elem()
		for _, xi := range x {
			h = h*31 + hash(tElt, xi)
		}
		return h
	case iface:
		if x.t == nil {
			return 0
		}
		return hashType(x.t)*8581 + hash(x.t, x.v)
	case opaque:
		return 11
	}
	panic(rtPanic(fmt.Sprintf("runtime error: hash of unhashable type %v", t)))
}

// load returns the value of type T in *addr.
func load(T types.Type, addr *value) value {
	switch T := T.Underlying().(type) {
	case *types.Struct:
		v := (*addr).(structure)
		a := make(structure, len(v))
		for i := range a {
			a[i] = load(T.Field(i).Type(), &v[i])
		}
		return a
	case *types.Array:
		v := (*addr).(array)
		a := make(array, len(v))
		for i := range a {
			a[i] = load(T.Elem(), &v[i])
		}
		return a
	default:
		return *addr
	}
}

// copyVal returns an unaliased copy of v (of type T).
func copyVal(T types.Type, v value) value {
	return load(T, &v)
}

// store stores value v of type T into *addr, logging old contents for undo.
func (i *interpreter) store(T types.Type, addr *value, v value) {
	switch T := T.Underlying().(type) {
	case *types.Struct:
		lhs := (*addr).(structure)
		rhs := v.(structure)
		for k := range lhs {
			i.store(T.Field(k).Type(), &lhs[k], rhs[k])
		}
	case *types.Array:
		lhs := (*addr).(array)
		rhs := v.(array)
		for k := range lhs {
			i.store(T.Elem(), &lhs[k], rhs[k])
		}
	default:
		i.set(addr, v)
	}
}

// set performs *addr = v with undo logging.
func (i *interpreter) set(addr *value, v value) {
	if i.undoOn {
		i.undo = append(i.undo, undoRec{addr: addr, old: *addr})
	}
	*addr = v
}

type undoRec struct {
	addr *value
	old  value
	fn   func()
}

func (i *interpreter) logUndo(fn func()) {
	if i.undoOn {
		i.undo = append(i.undo, undoRec{fn: fn})
	}
}

func (i *interpreter) rollback() {
	for k := len(i.undo) - 1; k >= 0; k-- {
		r := i.undo[k]
		if r.fn != nil {
			r.fn()
		} else {
			*r.addr = r.old
		}
	}
	i.undo = i.undo[:0]
}

// Prints in the style of built-in println.
func writeValue(buf *bytes.Buffer, v value) {
	switch v := v.(type) {
	case nil, bool, int, int8, int16, int32, int64, uint, uint8, uint16, uint32, uint64, uintptr, float32, float64, complex64, complex128:
		fmt.Fprintf(buf, "%v", v)
	case string:
		fmt.Fprintf(buf, "%q", v)
	case sv:
		s := v.T.String()
		if len(s) > 80 {
			s = s[:80] + "…"
		}
		fmt.Fprintf(buf, "<sym %s>", s)
	case *symstr:
		buf.WriteString("<symstr ")
		for _, b := range v.b {
			if c, ok := b.(uint8); ok {
				fmt.Fprintf(buf, "%q", string(rune(c)))
			} else {
				buf.WriteString("?")
			}
		}
		buf.WriteString(">")

	case *omap:
		buf.WriteString("map[")
		sep := ""
		if v != nil {
			for _, e := range v.ents {
				buf.WriteString(sep)
				sep = " "
				writeValue(buf, e.key)
				buf.WriteString(":")
				writeValue(buf, e.val)
			}
		}
		buf.WriteString("]")

	case chan value:
		fmt.Fprintf(buf, "%v", v) // (an address)

	case *value:
		if v == nil {
			buf.WriteString("<nil>")
		} else {
			fmt.Fprintf(buf, "%p", v)
		}

	case iface:
		fmt.Fprintf(buf, "(%s, ", v.t)
		writeValue(buf, v.v)
		buf.WriteString(")")

	case structure:
		buf.WriteString("{")
		for i, e := range v {
			if i > 0 {
				buf.WriteString(" ")
			}
			writeValue(buf, e)
		}
		buf.WriteString("}")

	case array:
		buf.WriteString("[")
		for i, e := range v {
			if i > 0 {
				buf.WriteString(" ")
			}
			writeValue(buf, e)
		}
		buf.WriteString("]")

	case []value:
		buf.WriteString("[")
		for i, e := range v {
			if i > 0 {
				buf.WriteString(" ")
			}
			writeValue(buf, e)
		}
		buf.WriteString("]")

	case *ssa.Function, *ssa.Builtin, *closure:
		fmt.Fprintf(buf, "%p", v) // (an address)

	case tuple:
		buf.WriteString("(")
		for i, e := range v {
			if i > 0 {
				buf.WriteString(", ")
			}
			writeValue(buf, e)
		}
		buf.WriteString(")")

	default:
		fmt.Fprintf(buf, "<%T>", v)
	}
}

func toString(v value) string {
	var b bytes.Buffer
	writeValue(&b, v)
	return b.String()
}

// ------------------------------------------------------------------------
// Iterators

// stringIter ranges over a (possibly symbolic) string; decoding forks on
// the lead byte class through decodeRune.
type stringIter struct {
	s value // string or *symstr
	i int
}

func (it *stringIter) next(fr *frame) tuple {
	n := strLen(it.s)
	if it.i >= n {
		return tuple{false, nil, nil}
	}
	r, sz := decodeRune(fr, strBytes(it.s)[it.i:])
	okv := tuple{true, it.i, r}
	it.i += sz
	return okv
}

type mapIter struct {
	m    *omap
	keys []value // snapshot of keys at range start
	i    int
}

func (it *mapIter) next(fr *frame) tuple {
	for it.i < len(it.keys) {
		k := it.keys[it.i]
		it.i++
		// entry may have been deleted during iteration
		if e := it.m.find(fr, k); e != nil {
			return tuple{true, k, e.val}
		}
	}
	return tuple{false, nil, nil}
}
