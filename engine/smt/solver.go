// Package smt drives an SMT solver process (z3 -in, or cvc5 --incremental)
// over a pipe with SMT-LIB2 text.
package smt

import (
	"bufio"
	"fmt"
	"io"
	"math/big"
	"os"
	"os/exec"
	"strings"
	"time"

	"symgo/sym"
)

type Result int

const (
	Unsat Result = iota
	Sat
	Unknown
)

func (r Result) String() string { return [...]string{"unsat", "sat", "unknown"}[r] }

type Solver struct {
	Kind         string // z3 | z3-new | cvc5
	cmd          *exec.Cmd
	in           io.WriteCloser
	out          *bufio.Reader
	defined      map[*sym.Term]bool // terms with a define-fun at run scope
	declared     map[string]bool    // vars / ufs declared at run scope
	Queries      int
	Time         time.Duration
	Errors       int
	LastError    string
	log          io.Writer
	TimeoutMs    int
	depth        int
	UseNRA       bool // real arithmetic present: use the nlsat tactic (z3's incremental core is weak on NRA)
	NRAFallbacks int
	ModelTime    time.Duration
	Dead         bool // the solver stopped answering and was killed: its state is lost
	Kills        int
}

func New(kind string, timeoutMs int) (*Solver, error) {
	s := &Solver{Kind: kind, TimeoutMs: timeoutMs}
	if err := s.start(); err != nil {
		return nil, err
	}
	return s, nil
}

func (s *Solver) start() error {
	var cmd *exec.Cmd
	switch s.Kind {
	case "z3", "z3-new":
		cmd = exec.Command(s.Kind, "-in", fmt.Sprintf("-t:%d", s.TimeoutMs))
	case "cvc5":
		cmd = exec.Command("cvc5", "--incremental", "--lang=smt2", "--produce-models", fmt.Sprintf("--tlimit-per=%d", s.TimeoutMs))
	default:
		return fmt.Errorf("unknown solver %q", s.Kind)
	}
	in, err := cmd.StdinPipe()
	if err != nil {
		return err
	}
	out, err := cmd.StdoutPipe()
	if err != nil {
		return err
	}
	cmd.Stderr = os.Stderr
	if err := cmd.Start(); err != nil {
		return err
	}
	s.cmd, s.in, s.out = cmd, in, bufio.NewReaderSize(out, 1<<16)
	s.defined = map[*sym.Term]bool{}
	s.declared = map[string]bool{}
	s.depth = 0
	if s.Kind == "cvc5" {
		s.send("(set-logic ALL)")
	}
	s.send("(set-option :produce-models true)")
	return nil
}

func (s *Solver) SetLog(w io.Writer) { s.log = w }

func (s *Solver) Close() {
	if s.cmd != nil {
		s.in.Close()
		s.cmd.Process.Kill()
		s.cmd.Wait()
		s.cmd = nil
	}
}

func (s *Solver) Restart() error {
	s.Close()
	s.Dead = false
	return s.start()
}

func (s *Solver) send(line string) {
	if s.log != nil {
		fmt.Fprintln(s.log, line)
	}
	io.WriteString(s.in, line)
	io.WriteString(s.in, "\n")
}

// readSexp reads one atom or balanced s-expression from the solver.
func (s *Solver) readSexp() (string, error) {
	var sb strings.Builder
	depth := 0
	started := false
	inStr := false
	for {
		c, err := s.out.ReadByte()
		if err != nil {
			return sb.String(), err
		}
		if !started {
			if c == ' ' || c == '\n' || c == '\r' || c == '\t' {
				continue
			}
			started = true
		}
		if inStr {
			sb.WriteByte(c)
			if c == '"' {
				inStr = false
			}
			continue
		}
		switch c {
		case '"':
			inStr = true
			sb.WriteByte(c)
		case '(':
			depth++
			sb.WriteByte(c)
		case ')':
			depth--
			sb.WriteByte(c)
			if depth == 0 {
				return sb.String(), nil
			}
		case '\n', ' ', '\t', '\r':
			if depth == 0 {
				return sb.String(), nil
			}
			sb.WriteByte(' ')
		default:
			sb.WriteByte(c)
		}
	}
}

func (s *Solver) Push() { s.send("(push 1)"); s.depth++ }
func (s *Solver) Pop()  { s.send("(pop 1)"); s.depth-- }

// BeginRun opens the run-level scope; declarations and definitions made
// until EndRun live in it.
func (s *Solver) BeginRun() {
	s.Push()
}

func (s *Solver) EndRun() {
	for s.depth > 0 {
		s.Pop()
	}
	s.defined = map[*sym.Term]bool{}
	s.declared = map[string]bool{}
}

func (s *Solver) ref(t *sym.Term) string {
	if len(t.Args) == 0 {
		return t.Head(nil)
	}
	return fmt.Sprintf("t!%d", t.ID)
}

// define emits declarations/definitions for t's sub-DAG (must be called at run scope depth).
func (s *Solver) define(t *sym.Term) {
	if s.defined[t] {
		return
	}
	// iterative post-order to survive deep terms
	type fr struct {
		t *sym.Term
		i int
	}
	stack := []fr{{t, 0}}
	for len(stack) > 0 {
		top := &stack[len(stack)-1]
		if s.defined[top.t] {
			stack = stack[:len(stack)-1]
			continue
		}
		if top.i < len(top.t.Args) {
			a := top.t.Args[top.i]
			top.i++
			if !s.defined[a] {
				stack = append(stack, fr{a, 0})
			}
			continue
		}
		x := top.t
		stack = stack[:len(stack)-1]
		s.defined[x] = true
		switch x.Op {
		case sym.OConst:
		case sym.OVar:
			if !s.declared[x.Name] {
				s.declared[x.Name] = true
				s.send(fmt.Sprintf("(declare-const %s %s)", x.Name, x.Sort))
			}
		default:
			if x.Op == sym.OApp && !s.declared[x.Name] {
				s.declared[x.Name] = true
				u := sym.UFs[x.Name]
				var as []string
				for _, a := range u.Args {
					as = append(as, a.String())
				}
				s.send(fmt.Sprintf("(declare-fun %s (%s) %s)", u.Name, strings.Join(as, " "), u.Ret))
			}
			if len(x.Args) > 0 {
				s.send(fmt.Sprintf("(define-fun t!%d () %s %s)", x.ID, x.Sort, x.Head(s.ref)))
			}
		}
	}
}

// Assert adds t at the current scope. Definitions are emitted first; callers
// must only Assert inside an inner Push after calling Define at run scope, or
// at run scope directly.
func (s *Solver) Assert(t *sym.Term) {
	s.define(t)
	s.send("(assert " + s.ref(t) + ")")
}

// Define makes sure t has definitions at the current (run) scope.
func (s *Solver) Define(t *sym.Term) { s.define(t) }

func (s *Solver) AssertRef(t *sym.Term) {
	s.send("(assert " + s.ref(t) + ")")
}

func (s *Solver) Check() Result {
	if s.UseNRA && s.Kind != "cvc5" {
		errs := s.Errors
		r := s.checkWith("(check-sat-using (then simplify propagate-values solve-eqs purify-arith nlsat))")
		if r != Unknown && s.Errors == errs {
			return r
		}
		// tactic not applicable (mixed theories) or gave up: fall back to the default solver
		s.Errors = errs
		s.NRAFallbacks++
	}
	return s.checkWith("(check-sat)")
}

func (s *Solver) checkWith(cmd string) Result {
	start := time.Now()
	s.Queries++
	if s.Dead {
		return Unknown
	}
	s.send(cmd)
	type ans struct {
		r   Result
		err string
	}
	ch := make(chan ans, 1)
	go func() {
		r := Unknown
		for {
			line, err := s.readSexp()
			if err != nil {
				ch <- ans{Unknown, "solver pipe: " + err.Error()}
				return
			}
			if line == "sat" {
				r = Sat
				break
			}
			if line == "unsat" {
				r = Unsat
				break
			}
			if line == "unknown" || line == "timeout" {
				r = Unknown
				break
			}
			if strings.HasPrefix(line, "(error") {
				if strings.HasPrefix(cmd, "(check-sat-using") {
					// a failing tactic prints only the error
					ch <- ans{Unknown, line}
					return
				}
				fmt.Fprintln(os.Stderr, "symgo: solver error:", line)
				ch <- ans{Unknown, "error-then-answer:" + line}
				// the check-sat answer follows: consume it
				s.readSexp()
				return
			}
			ch <- ans{Unknown, "unexpected solver output: " + line}
			return
		}
		ch <- ans{r, ""}
	}()
	// hard watchdog: the soft timeout is not honoured in every solver phase
	limit := time.Duration(s.TimeoutMs)*2*time.Millisecond + 5*time.Second
	var a ans
	select {
	case a = <-ch:
	case <-time.After(limit):
		s.Dead = true
		s.Kills++
		s.cmd.Process.Kill()
		a = ans{Unknown, "solver killed after " + limit.String()}
		<-ch // the reader goroutine ends on the closed pipe
	}
	if a.err != "" {
		s.Errors++
		s.LastError = a.err
		if !strings.HasPrefix(cmd, "(check-sat-using") && !s.Dead {
			fmt.Fprintln(os.Stderr, "symgo:", a.err)
		}
	}
	s.Time += time.Since(start)
	return a.r
}

// Model returns values for the given terms (after a Sat answer). Terms whose
// value cannot be parsed are omitted.
func (s *Solver) Model(ts []*sym.Term) sym.Model {
	start := time.Now()
	defer func() { s.ModelTime += time.Since(start) }()
	m := sym.Model{}
	if len(ts) == 0 {
		return m
	}
	if s.Dead {
		return nil
	}
	const chunk = 200
	for i := 0; i < len(ts); i += chunk {
		j := i + chunk
		if j > len(ts) {
			j = len(ts)
		}
		var sb strings.Builder
		sb.WriteString("(get-value (")
		for _, t := range ts[i:j] {
			sb.WriteString(s.ref(t))
			sb.WriteString(" ")
		}
		sb.WriteString("))")
		s.send(sb.String())
		resp, err := s.readSexp()
		if err != nil || strings.HasPrefix(resp, "(error") {
			s.Errors++
			s.LastError = "get-value: " + resp
			return nil
		}
		sx, _, perr := parseSexp(resp, 0)
		if perr != nil || sx.atom != "" || len(sx.list) != j-i {
			s.Errors++
			s.LastError = "get-value parse: " + resp
			return nil
		}
		for k, pair := range sx.list {
			if len(pair.list) != 2 {
				continue
			}
			t := ts[i+k]
			if c := parseValue(pair.list[1], t.Sort); c != nil {
				m[t] = c
			}
		}
	}
	return m
}

type sexp struct {
	atom string
	list []*sexp
}

func parseSexp(s string, i int) (*sexp, int, error) {
	for i < len(s) && (s[i] == ' ' || s[i] == '\n') {
		i++
	}
	if i >= len(s) {
		return nil, i, fmt.Errorf("eof")
	}
	if s[i] == '(' {
		i++
		n := &sexp{}
		for {
			for i < len(s) && (s[i] == ' ' || s[i] == '\n') {
				i++
			}
			if i >= len(s) {
				return nil, i, fmt.Errorf("eof in list")
			}
			if s[i] == ')' {
				return n, i + 1, nil
			}
			c, j, err := parseSexp(s, i)
			if err != nil {
				return nil, j, err
			}
			n.list = append(n.list, c)
			i = j
		}
	}
	j := i
	if s[i] == '|' {
		j = i + 1
		for j < len(s) && s[j] != '|' {
			j++
		}
		j++
	} else {
		for j < len(s) && s[j] != ' ' && s[j] != ')' && s[j] != '(' && s[j] != '\n' {
			j++
		}
	}
	return &sexp{atom: s[i:j]}, j, nil
}

func parseRat(x *sexp) *big.Rat {
	if x.atom != "" {
		r, ok := new(big.Rat).SetString(x.atom)
		if !ok {
			return nil
		}
		return r
	}
	if len(x.list) == 2 && x.list[0].atom == "-" {
		r := parseRat(x.list[1])
		if r == nil {
			return nil
		}
		return r.Neg(r)
	}
	if len(x.list) == 3 && x.list[0].atom == "/" {
		a, b := parseRat(x.list[1]), parseRat(x.list[2])
		if a == nil || b == nil || b.Sign() == 0 {
			return nil
		}
		return a.Quo(a, b)
	}
	return nil
}

func parseValue(x *sexp, so sym.Sort) *sym.Term {
	switch so.K {
	case sym.KBool:
		if x.atom == "true" {
			return sym.True
		}
		if x.atom == "false" {
			return sym.False
		}
	case sym.KBV:
		a := x.atom
		if strings.HasPrefix(a, "#x") {
			v, ok := new(big.Int).SetString(a[2:], 16)
			if ok {
				return sym.BVConst(so.W, v.Uint64())
			}
		}
		if strings.HasPrefix(a, "#b") {
			v, ok := new(big.Int).SetString(a[2:], 2)
			if ok {
				return sym.BVConst(so.W, v.Uint64())
			}
		}
		if len(x.list) == 3 && x.list[0].atom == "_" && strings.HasPrefix(x.list[1].atom, "bv") {
			v, ok := new(big.Int).SetString(x.list[1].atom[2:], 10)
			if ok {
				return sym.BVConst(so.W, v.Uint64())
			}
		}
	case sym.KInt:
		r := parseRat(x)
		if r != nil && r.IsInt() {
			return sym.IntConstBig(r.Num())
		}
	case sym.KReal:
		r := parseRat(x)
		if r != nil {
			return sym.RealConst(r)
		}
	}
	return nil
}
