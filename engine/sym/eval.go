package sym

// Model maps variables (and, optionally, whole application terms) to constants.
type Model map[*Term]*Term

// Rebuild re-applies the smart constructor of t's operator to new arguments.
func Rebuild(t *Term, args []*Term) *Term {
	switch t.Op {
	case OConst, OVar:
		return t
	case ONot:
		return Not(args[0])
	case OAnd:
		return And(args...)
	case OOr:
		return Or(args...)
	case OIte:
		return Ite(args[0], args[1], args[2])
	case OEq:
		return Eq(args[0], args[1])
	case OBVAdd, OBVSub, OBVMul, OBVUDiv, OBVURem, OBVSDiv, OBVSRem, OBVAnd, OBVOr, OBVXor, OBVShl, OBVLShr, OBVAShr:
		return BVBin(t.Op, args[0], args[1])
	case OBVNot:
		return BVNot(args[0])
	case OBVNeg:
		return BVNeg(args[0])
	case OBVUlt, OBVUle, OBVSlt, OBVSle:
		return BVCmp(t.Op, args[0], args[1])
	case OConcat:
		return Concat(args[0], args[1])
	case OExtract:
		return Extract(t.A, t.B, args[0])
	case OZeroExt:
		return ZeroExt(t.A, args[0])
	case OSignExt:
		return SignExt(t.A, args[0])
	case OAdd, OSub, OMul, ODiv, OIDiv, OMod:
		return Arith(t.Op, args[0], args[1])
	case ONeg:
		return Neg(args[0])
	case OLt:
		return Lt(args[0], args[1])
	case OLe:
		return Le(args[0], args[1])
	case OToReal:
		return ToReal(args[0])
	case OToInt:
		return ToInt(args[0])
	case OBV2Nat:
		return BV2Nat(args[0])
	case OInt2BV:
		return Int2BV(t.A, args[0])
	case OApp:
		return mk(&Term{Op: OApp, Sort: t.Sort, Name: t.Name, Args: args})
	}
	panic("sym: Rebuild: unknown op")
}

// Subst substitutes according to m (keys may be variables or any term).
func Subst(t *Term, m Model, memo map[*Term]*Term) *Term {
	if r, ok := m[t]; ok {
		return r
	}
	if len(t.Args) == 0 {
		return t
	}
	if r, ok := memo[t]; ok {
		return r
	}
	args := make([]*Term, len(t.Args))
	changed := false
	for i, a := range t.Args {
		args[i] = Subst(a, m, memo)
		if args[i] != a {
			changed = true
		}
	}
	r := t
	if changed {
		r = Rebuild(t, args)
	}
	memo[t] = r
	return r
}

// Eval evaluates t under m; it returns nil when the result is not a constant
// (unassigned variable, uninterpreted application, division by zero).
func Eval(t *Term, m Model) *Term {
	if m == nil {
		if t.Op == OConst {
			return t
		}
		return nil
	}
	r := Subst(t, m, map[*Term]*Term{})
	if r.Op == OConst {
		return r
	}
	return nil
}
