// Package sym implements the hash-consed term DAG used by symgo, with
// constant folding, a concrete evaluator and an SMT-LIB2 printer.
package sym

import (
	"fmt"
	"math/big"
	"sort"
	"strings"
)

type SortKind uint8

const (
	KBool SortKind = iota
	KBV
	KInt
	KReal
)

type Sort struct {
	K SortKind
	W int // width for KBV
}

var (
	Bool = Sort{K: KBool}
	Int  = Sort{K: KInt}
	Real = Sort{K: KReal}
)

func BV(w int) Sort { return Sort{K: KBV, W: w} }

func (s Sort) String() string {
	switch s.K {
	case KBool:
		return "Bool"
	case KBV:
		return fmt.Sprintf("(_ BitVec %d)", s.W)
	case KInt:
		return "Int"
	case KReal:
		return "Real"
	}
	return "?"
}

type Op uint8

const (
	OConst Op = iota
	OVar
	ONot
	OAnd
	OOr
	OIte
	OEq
	// bit-vectors
	OBVAdd
	OBVSub
	OBVMul
	OBVUDiv
	OBVURem
	OBVSDiv
	OBVSRem
	OBVAnd
	OBVOr
	OBVXor
	OBVNot
	OBVNeg
	OBVShl
	OBVLShr
	OBVAShr
	OBVUlt
	OBVUle
	OBVSlt
	OBVSle
	OConcat
	OExtract
	OZeroExt
	OSignExt
	// arithmetic (Int / Real)
	OAdd
	OSub
	OMul
	ODiv  // real division
	OIDiv // SMT-LIB euclidean div
	OMod  // SMT-LIB mod
	ONeg
	OLt
	OLe
	OToReal
	OToInt // floor
	OApp   // uninterpreted function application
	OBV2Nat
	OInt2BV // A = width
)

var opNames = map[Op]string{
	ONot: "not", OAnd: "and", OOr: "or", OIte: "ite", OEq: "=",
	OBVAdd: "bvadd", OBVSub: "bvsub", OBVMul: "bvmul", OBVUDiv: "bvudiv", OBVURem: "bvurem",
	OBVSDiv: "bvsdiv", OBVSRem: "bvsrem", OBVAnd: "bvand", OBVOr: "bvor", OBVXor: "bvxor",
	OBVNot: "bvnot", OBVNeg: "bvneg", OBVShl: "bvshl", OBVLShr: "bvlshr", OBVAShr: "bvashr",
	OBVUlt: "bvult", OBVUle: "bvule", OBVSlt: "bvslt", OBVSle: "bvsle", OConcat: "concat",
	OAdd: "+", OSub: "-", OMul: "*", ODiv: "/", OIDiv: "div", OMod: "mod", ONeg: "-",
	OLt: "<", OLe: "<=", OToReal: "to_real", OToInt: "to_int",
}

// Term is an immutable hash-consed node.
type Term struct {
	Op   Op
	Sort Sort
	Args []*Term
	U    uint64   // bool / bv constant (masked to width)
	N    *big.Rat // Int / Real constant
	Name string   // var / uf name
	A, B int      // extract hi/lo; extension amount in A
	ID   int
}

// UF describes an uninterpreted function.
type UF struct {
	Name string
	Args []Sort
	Ret  Sort
}

var (
	table   = map[string]*Term{}
	nextID  = 1
	Vars    = map[string]*Term{}
	VarList []*Term
	UFs     = map[string]*UF{}
	UFList  []*UF
)

func mk(t *Term) *Term {
	var sb strings.Builder
	fmt.Fprintf(&sb, "%d|%d.%d|", t.Op, t.Sort.K, t.Sort.W)
	for _, a := range t.Args {
		fmt.Fprintf(&sb, "%d,", a.ID)
	}
	switch t.Op {
	case OConst:
		if t.N != nil {
			sb.WriteString(t.N.String())
		} else {
			fmt.Fprintf(&sb, "%d", t.U)
		}
	case OVar, OApp:
		sb.WriteString(t.Name)
	case OExtract, OZeroExt, OSignExt, OInt2BV:
		fmt.Fprintf(&sb, "%d:%d", t.A, t.B)
	}
	k := sb.String()
	if e, ok := table[k]; ok {
		return e
	}
	t.ID = nextID
	nextID++
	table[k] = t
	return t
}

func mask(w int) uint64 {
	if w >= 64 {
		return ^uint64(0)
	}
	return (uint64(1) << uint(w)) - 1
}

// ---- constants ----

var (
	True  = mk(&Term{Op: OConst, Sort: Bool, U: 1})
	False = mk(&Term{Op: OConst, Sort: Bool, U: 0})
)

func BoolConst(b bool) *Term {
	if b {
		return True
	}
	return False
}

func BVConst(w int, v uint64) *Term {
	return mk(&Term{Op: OConst, Sort: BV(w), U: v & mask(w)})
}

func IntConst(v int64) *Term {
	return mk(&Term{Op: OConst, Sort: Int, N: new(big.Rat).SetInt64(v)})
}

func IntConstBig(v *big.Int) *Term {
	return mk(&Term{Op: OConst, Sort: Int, N: new(big.Rat).SetInt(v)})
}

func RealConst(r *big.Rat) *Term {
	return mk(&Term{Op: OConst, Sort: Real, N: new(big.Rat).Set(r)})
}

func RealConstF(f float64) *Term {
	r := new(big.Rat)
	if r.SetFloat64(f) == nil {
		panic("sym: non-finite real constant")
	}
	return RealConst(r)
}

func (t *Term) IsConst() bool { return t.Op == OConst }
func (t *Term) IsTrue() bool  { return t == True }
func (t *Term) IsFalse() bool { return t == False }

// SignedVal returns the constant value of a BV constant as signed int64.
func (t *Term) SignedVal() int64 {
	w := t.Sort.W
	v := t.U
	if w < 64 && v&(uint64(1)<<uint(w-1)) != 0 {
		v |= ^mask(w)
	}
	return int64(v)
}

// ---- variables / UFs ----

func Var(name string, s Sort) *Term {
	if v, ok := Vars[name]; ok {
		if v.Sort != s {
			panic(fmt.Sprintf("sym: variable %s redeclared with sort %v (was %v)", name, s, v.Sort))
		}
		return v
	}
	v := mk(&Term{Op: OVar, Sort: s, Name: name})
	Vars[name] = v
	VarList = append(VarList, v)
	return v
}

func DeclareUF(name string, args []Sort, ret Sort) *UF {
	if u, ok := UFs[name]; ok {
		return u
	}
	u := &UF{Name: name, Args: args, Ret: ret}
	UFs[name] = u
	UFList = append(UFList, u)
	return u
}

func App(u *UF, args ...*Term) *Term {
	return mk(&Term{Op: OApp, Sort: u.Ret, Name: u.Name, Args: args})
}

// ---- boolean ----

func Not(a *Term) *Term {
	if a.Op == OConst {
		return BoolConst(a.U == 0)
	}
	if a.Op == ONot {
		return a.Args[0]
	}
	return mk(&Term{Op: ONot, Sort: Bool, Args: []*Term{a}})
}

func And(as ...*Term) *Term {
	var out []*Term
	seen := map[*Term]bool{}
	for _, a := range as {
		if a.Op == OAnd {
			for _, b := range a.Args {
				if !seen[b] {
					seen[b] = true
					out = append(out, b)
				}
			}
			continue
		}
		if a == False {
			return False
		}
		if a == True || seen[a] {
			continue
		}
		seen[a] = true
		out = append(out, a)
	}
	for _, a := range out {
		if seen[Not(a)] {
			return False
		}
	}
	switch len(out) {
	case 0:
		return True
	case 1:
		return out[0]
	}
	return mk(&Term{Op: OAnd, Sort: Bool, Args: out})
}

func Or(as ...*Term) *Term {
	var out []*Term
	seen := map[*Term]bool{}
	for _, a := range as {
		if a.Op == OOr {
			for _, b := range a.Args {
				if !seen[b] {
					seen[b] = true
					out = append(out, b)
				}
			}
			continue
		}
		if a == True {
			return True
		}
		if a == False || seen[a] {
			continue
		}
		seen[a] = true
		out = append(out, a)
	}
	for _, a := range out {
		if seen[Not(a)] {
			return True
		}
	}
	switch len(out) {
	case 0:
		return False
	case 1:
		return out[0]
	}
	return mk(&Term{Op: OOr, Sort: Bool, Args: out})
}

func Implies(a, b *Term) *Term { return Or(Not(a), b) }

func Ite(c, a, b *Term) *Term {
	if c == True {
		return a
	}
	if c == False {
		return b
	}
	if a == b {
		return a
	}
	if a.Sort != b.Sort {
		panic(fmt.Sprintf("sym: ite sort mismatch %v vs %v", a.Sort, b.Sort))
	}
	if a.Sort == Bool {
		if a == True && b == False {
			return c
		}
		if a == False && b == True {
			return Not(c)
		}
		if a == True {
			return Or(c, b)
		}
		if a == False {
			return And(Not(c), b)
		}
		if b == True {
			return Or(Not(c), a)
		}
		if b == False {
			return And(c, a)
		}
	}
	return mk(&Term{Op: OIte, Sort: a.Sort, Args: []*Term{c, a, b}})
}

func Eq(a, b *Term) *Term {
	if a == b {
		return True
	}
	if a.Sort != b.Sort {
		panic(fmt.Sprintf("sym: eq sort mismatch %v vs %v", a.Sort, b.Sort))
	}
	if a.Op == OConst && b.Op == OConst {
		return False // distinct hash-consed constants of the same sort
	}
	if a.Sort == Bool {
		if a == True {
			return b
		}
		if b == True {
			return a
		}
		if a == False {
			return Not(b)
		}
		if b == False {
			return Not(a)
		}
	}
	// push equality with a constant through ite over constants
	if b.Op == OConst && a.Op == OIte {
		return iteEqConst(a, b)
	}
	if a.Op == OConst && b.Op == OIte {
		return iteEqConst(b, a)
	}
	// zero-extension compared with a constant
	if b.Op == OConst && a.Op == OZeroExt {
		return zextEqConst(a, b)
	}
	if a.Op == OConst && b.Op == OZeroExt {
		return zextEqConst(b, a)
	}
	if a.ID > b.ID {
		a, b = b, a
	}
	return mk(&Term{Op: OEq, Sort: Bool, Args: []*Term{a, b}})
}

func zextEqConst(z, c *Term) *Term {
	in := z.Args[0]
	if c.U > mask(in.Sort.W) {
		return False
	}
	return Eq(in, BVConst(in.Sort.W, c.U))
}

func iteEqConst(it, c *Term) *Term {
	// only when both branches bottom out in constants within small depth
	if !iteConstLeaves(it, 6) {
		x, y := it, c
		if x.ID > y.ID {
			x, y = y, x
		}
		return mk(&Term{Op: OEq, Sort: Bool, Args: []*Term{x, y}})
	}
	return Ite(it.Args[0], Eq(it.Args[1], c), Eq(it.Args[2], c))
}

func iteConstLeaves(t *Term, depth int) bool {
	if t.Op == OConst {
		return true
	}
	if t.Op != OIte || depth == 0 {
		return false
	}
	// allow one non-const leaf chain: ite(c, K, x) patterns are common (ToLower)
	return (t.Args[1].Op == OConst || iteConstLeaves(t.Args[1], depth-1)) &&
		(t.Args[2].Op == OConst || iteConstLeaves(t.Args[2], depth-1))
}

// ---- bit-vectors ----

func bvFold(op Op, w int, x, y uint64) (uint64, bool) {
	m := mask(w)
	sx := func(v uint64) int64 {
		if w < 64 && v&(uint64(1)<<uint(w-1)) != 0 {
			v |= ^m
		}
		return int64(v)
	}
	switch op {
	case OBVAdd:
		return (x + y) & m, true
	case OBVSub:
		return (x - y) & m, true
	case OBVMul:
		return (x * y) & m, true
	case OBVUDiv:
		if y == 0 {
			return m, true
		}
		return (x / y) & m, true
	case OBVURem:
		if y == 0 {
			return x, true
		}
		return (x % y) & m, true
	case OBVSDiv:
		a, b := sx(x), sx(y)
		if b == 0 {
			if a >= 0 {
				return m, true
			}
			return 1, true
		}
		if b == -1 {
			return uint64(-a) & m, true
		}
		return uint64(a/b) & m, true
	case OBVSRem:
		a, b := sx(x), sx(y)
		if b == 0 {
			return x, true
		}
		if b == -1 {
			return 0, true
		}
		return uint64(a%b) & m, true
	case OBVAnd:
		return x & y, true
	case OBVOr:
		return x | y, true
	case OBVXor:
		return x ^ y, true
	case OBVShl:
		if y >= uint64(w) {
			return 0, true
		}
		return (x << y) & m, true
	case OBVLShr:
		if y >= uint64(w) {
			return 0, true
		}
		return (x >> y) & m, true
	case OBVAShr:
		a := sx(x)
		if y >= uint64(w) {
			if a < 0 {
				return m, true
			}
			return 0, true
		}
		return uint64(a>>y) & m, true
	}
	return 0, false
}

func BVBin(op Op, a, b *Term) *Term {
	if a.Sort != b.Sort || a.Sort.K != KBV {
		panic(fmt.Sprintf("sym: bv op %s sort mismatch %v %v", opNames[op], a.Sort, b.Sort))
	}
	w := a.Sort.W
	if a.Op == OConst && b.Op == OConst {
		if v, ok := bvFold(op, w, a.U, b.U); ok {
			return BVConst(w, v)
		}
	}
	switch op {
	case OBVAdd:
		if a.Op == OConst && a.U == 0 {
			return b
		}
		if b.Op == OConst && b.U == 0 {
			return a
		}
		// (x + c1) + c2
		if b.Op == OConst && a.Op == OBVAdd && a.Args[1].Op == OConst {
			return BVBin(OBVAdd, a.Args[0], BVConst(w, a.Args[1].U+b.U))
		}
		if a.Op == OConst { // canonical: constant on the right
			a, b = b, a
		}
	case OBVSub:
		if b.Op == OConst {
			return BVBin(OBVAdd, a, BVConst(w, -b.U))
		}
		if a == b {
			return BVConst(w, 0)
		}
	case OBVMul:
		if a.Op == OConst {
			a, b = b, a
		}
		if b.Op == OConst {
			if b.U == 0 {
				return b
			}
			if b.U == 1 {
				return a
			}
		}
	case OBVAnd:
		if a == b {
			return a
		}
		if a.Op == OConst {
			a, b = b, a
		}
		if b.Op == OConst {
			if b.U == 0 {
				return b
			}
			if b.U == mask(w) {
				return a
			}
		}
	case OBVOr:
		if a == b {
			return a
		}
		if a.Op == OConst {
			a, b = b, a
		}
		if b.Op == OConst {
			if b.U == 0 {
				return a
			}
			if b.U == mask(w) {
				return b
			}
		}
	case OBVXor:
		if a == b {
			return BVConst(w, 0)
		}
		if b.Op == OConst && b.U == 0 {
			return a
		}
		if a.Op == OConst && a.U == 0 {
			return b
		}
	case OBVShl, OBVLShr, OBVAShr:
		if b.Op == OConst && b.U == 0 {
			return a
		}
	}
	return mk(&Term{Op: op, Sort: a.Sort, Args: []*Term{a, b}})
}

func BVNot(a *Term) *Term {
	if a.Op == OConst {
		return BVConst(a.Sort.W, ^a.U)
	}
	if a.Op == OBVNot {
		return a.Args[0]
	}
	return mk(&Term{Op: OBVNot, Sort: a.Sort, Args: []*Term{a}})
}

func BVNeg(a *Term) *Term {
	if a.Op == OConst {
		return BVConst(a.Sort.W, -a.U)
	}
	return mk(&Term{Op: OBVNeg, Sort: a.Sort, Args: []*Term{a}})
}

// unsigned range of a term when it is cheaply known: [lo, hi]
func urange(t *Term) (uint64, uint64) {
	switch t.Op {
	case OConst:
		return t.U, t.U
	case OZeroExt:
		_, hi := urange(t.Args[0])
		return 0, hi
	case OIte:
		l1, h1 := urange(t.Args[1])
		l2, h2 := urange(t.Args[2])
		if l2 < l1 {
			l1 = l2
		}
		if h2 > h1 {
			h1 = h2
		}
		return l1, h1
	}
	return 0, mask(t.Sort.W)
}

func BVCmp(op Op, a, b *Term) *Term {
	if a.Sort != b.Sort || a.Sort.K != KBV {
		panic(fmt.Sprintf("sym: bv cmp sort mismatch %v %v", a.Sort, b.Sort))
	}
	if a.Op == OConst && b.Op == OConst {
		var r bool
		switch op {
		case OBVUlt:
			r = a.U < b.U
		case OBVUle:
			r = a.U <= b.U
		case OBVSlt:
			r = a.SignedVal() < b.SignedVal()
		case OBVSle:
			r = a.SignedVal() <= b.SignedVal()
		}
		return BoolConst(r)
	}
	if a == b {
		return BoolConst(op == OBVUle || op == OBVSle)
	}
	// cheap interval reasoning for zero-extended operands (bytes widened to int)
	w := a.Sort.W
	al, ah := urange(a)
	bl, bh := urange(b)
	half := uint64(1) << uint(w-1)
	signedOK := ah < half && bh < half
	switch op {
	case OBVUlt:
		if ah < bl {
			return True
		}
		if al >= bh {
			return False
		}
	case OBVUle:
		if ah <= bl {
			return True
		}
		if al > bh {
			return False
		}
	case OBVSlt:
		if signedOK {
			if ah < bl {
				return True
			}
			if al >= bh {
				return False
			}
		}
	case OBVSle:
		if signedOK {
			if ah <= bl {
				return True
			}
			if al > bh {
				return False
			}
		}
	}
	// narrow comparisons of zero-extended values with constants
	if a.Op == OZeroExt && b.Op == OConst && b.U <= mask(a.Args[0].Sort.W) && (op == OBVUlt || op == OBVUle || signedOK) {
		nop := op
		if op == OBVSlt {
			nop = OBVUlt
		} else if op == OBVSle {
			nop = OBVUle
		}
		return BVCmp(nop, a.Args[0], BVConst(a.Args[0].Sort.W, b.U))
	}
	if b.Op == OZeroExt && a.Op == OConst && a.U <= mask(b.Args[0].Sort.W) && (op == OBVUlt || op == OBVUle || signedOK) {
		nop := op
		if op == OBVSlt {
			nop = OBVUlt
		} else if op == OBVSle {
			nop = OBVUle
		}
		return BVCmp(nop, BVConst(b.Args[0].Sort.W, a.U), b.Args[0])
	}
	return mk(&Term{Op: op, Sort: Bool, Args: []*Term{a, b}})
}

func Concat(hi, lo *Term) *Term {
	w := hi.Sort.W + lo.Sort.W
	if hi.Op == OConst && lo.Op == OConst && w <= 64 {
		return BVConst(w, hi.U<<uint(lo.Sort.W)|lo.U)
	}
	return mk(&Term{Op: OConcat, Sort: BV(w), Args: []*Term{hi, lo}})
}

func Extract(hi, lo int, a *Term) *Term {
	w := hi - lo + 1
	if lo == 0 && w == a.Sort.W {
		return a
	}
	if a.Op == OConst {
		return BVConst(w, a.U>>uint(lo))
	}
	if (a.Op == OZeroExt || a.Op == OSignExt) && hi < a.Args[0].Sort.W {
		return Extract(hi, lo, a.Args[0])
	}
	if a.Op == OZeroExt && lo >= a.Args[0].Sort.W {
		return BVConst(w, 0)
	}
	return mk(&Term{Op: OExtract, Sort: BV(w), Args: []*Term{a}, A: hi, B: lo})
}

func ZeroExt(n int, a *Term) *Term {
	if n == 0 {
		return a
	}
	if a.Op == OConst {
		return BVConst(a.Sort.W+n, a.U)
	}
	if a.Op == OZeroExt {
		return ZeroExt(n+a.A, a.Args[0])
	}
	return mk(&Term{Op: OZeroExt, Sort: BV(a.Sort.W + n), Args: []*Term{a}, A: n})
}

func SignExt(n int, a *Term) *Term {
	if n == 0 {
		return a
	}
	if a.Op == OConst {
		return BVConst(a.Sort.W+n, uint64(a.SignedVal()))
	}
	if a.Op == OZeroExt { // top bit is 0
		return ZeroExt(n+a.A, a.Args[0])
	}
	return mk(&Term{Op: OSignExt, Sort: BV(a.Sort.W + n), Args: []*Term{a}, A: n})
}

// ---- Int / Real arithmetic ----

func isInteger(r *big.Rat) bool { return r.IsInt() }

func floorRat(r *big.Rat) *big.Int {
	q := new(big.Int)
	m := new(big.Int)
	q.DivMod(r.Num(), r.Denom(), m) // Euclidean; denom > 0 so this is floor
	return q
}

func Arith(op Op, a, b *Term) *Term {
	if a.Sort != b.Sort || (a.Sort.K != KInt && a.Sort.K != KReal) {
		panic(fmt.Sprintf("sym: arith %s sort mismatch %v %v", opNames[op], a.Sort, b.Sort))
	}
	s := a.Sort
	cst := func(r *big.Rat) *Term { return mk(&Term{Op: OConst, Sort: s, N: r}) }
	if a.Op == OConst && b.Op == OConst {
		switch op {
		case OAdd:
			return cst(new(big.Rat).Add(a.N, b.N))
		case OSub:
			return cst(new(big.Rat).Sub(a.N, b.N))
		case OMul:
			return cst(new(big.Rat).Mul(a.N, b.N))
		case ODiv:
			if b.N.Sign() != 0 {
				return cst(new(big.Rat).Quo(a.N, b.N))
			}
		case OIDiv:
			if b.N.Sign() != 0 {
				q, m := new(big.Int), new(big.Int)
				q.DivMod(a.N.Num(), b.N.Num(), m)
				return IntConstBig(q)
			}
		case OMod:
			if b.N.Sign() != 0 {
				q, m := new(big.Int), new(big.Int)
				q.DivMod(a.N.Num(), b.N.Num(), m)
				return IntConstBig(m)
			}
		}
	}
	switch op {
	case OAdd:
		if a.Op == OConst && a.N.Sign() == 0 {
			return b
		}
		if b.Op == OConst && b.N.Sign() == 0 {
			return a
		}
	case OSub:
		if b.Op == OConst && b.N.Sign() == 0 {
			return a
		}
		if a == b {
			return cst(new(big.Rat))
		}
	case OMul:
		if a.Op == OConst {
			a, b = b, a
		}
		if b.Op == OConst {
			if b.N.Sign() == 0 {
				return b
			}
			if b.N.Cmp(big.NewRat(1, 1)) == 0 {
				return a
			}
		}
	case ODiv:
		if b.Op == OConst && b.N.Cmp(big.NewRat(1, 1)) == 0 {
			return a
		}
	}
	return mk(&Term{Op: op, Sort: s, Args: []*Term{a, b}})
}

func Neg(a *Term) *Term {
	if a.Op == OConst {
		return mk(&Term{Op: OConst, Sort: a.Sort, N: new(big.Rat).Neg(a.N)})
	}
	if a.Op == ONeg {
		return a.Args[0]
	}
	return mk(&Term{Op: ONeg, Sort: a.Sort, Args: []*Term{a}})
}

func Lt(a, b *Term) *Term {
	if a.Sort != b.Sort {
		panic("sym: lt sort mismatch")
	}
	if a.Op == OConst && b.Op == OConst {
		return BoolConst(a.N.Cmp(b.N) < 0)
	}
	if a == b {
		return False
	}
	return mk(&Term{Op: OLt, Sort: Bool, Args: []*Term{a, b}})
}

func Le(a, b *Term) *Term {
	if a.Sort != b.Sort {
		panic("sym: le sort mismatch")
	}
	if a.Op == OConst && b.Op == OConst {
		return BoolConst(a.N.Cmp(b.N) <= 0)
	}
	if a == b {
		return True
	}
	return mk(&Term{Op: OLe, Sort: Bool, Args: []*Term{a, b}})
}

func ToReal(a *Term) *Term {
	if a.Sort.K == KReal {
		return a
	}
	if a.Op == OConst {
		return RealConst(a.N)
	}
	return mk(&Term{Op: OToReal, Sort: Real, Args: []*Term{a}})
}

// ToInt is floor (SMT-LIB to_int).
func ToInt(a *Term) *Term {
	if a.Sort.K == KInt {
		return a
	}
	if a.Op == OConst {
		return IntConstBig(floorRat(a.N))
	}
	if a.Op == OToReal {
		return a.Args[0]
	}
	return mk(&Term{Op: OToInt, Sort: Int, Args: []*Term{a}})
}

// ---- printing ----

func constString(t *Term) string {
	switch t.Sort.K {
	case KBool:
		if t.U != 0 {
			return "true"
		}
		return "false"
	case KBV:
		if t.Sort.W%4 == 0 {
			return fmt.Sprintf("#x%0*x", t.Sort.W/4, t.U)
		}
		return fmt.Sprintf("#b%0*b", t.Sort.W, t.U)
	case KInt:
		n := t.N.Num()
		if n.Sign() < 0 {
			return "(- " + new(big.Int).Neg(n).String() + ")"
		}
		return n.String()
	case KReal:
		num, den := t.N.Num(), t.N.Denom()
		ns := new(big.Int).Abs(num).String() + ".0"
		if num.Sign() < 0 {
			ns = "(- " + ns + ")"
		}
		if den.Cmp(big.NewInt(1)) == 0 {
			return ns
		}
		return "(/ " + ns + " " + den.String() + ".0)"
	}
	return "?"
}

// Head returns the SMT-LIB text of t with sub-terms referred to by ref(arg).
func (t *Term) Head(ref func(*Term) string) string {
	switch t.Op {
	case OConst:
		return constString(t)
	case OVar:
		return t.Name
	case OExtract:
		return fmt.Sprintf("((_ extract %d %d) %s)", t.A, t.B, ref(t.Args[0]))
	case OZeroExt:
		return fmt.Sprintf("((_ zero_extend %d) %s)", t.A, ref(t.Args[0]))
	case OSignExt:
		return fmt.Sprintf("((_ sign_extend %d) %s)", t.A, ref(t.Args[0]))
	case OBV2Nat:
		return fmt.Sprintf("(bv2nat %s)", ref(t.Args[0]))
	case OInt2BV:
		return fmt.Sprintf("((_ int2bv %d) %s)", t.A, ref(t.Args[0]))
	case OApp:
		if len(t.Args) == 0 {
			return t.Name
		}
		var sb strings.Builder
		sb.WriteString("(" + t.Name)
		for _, a := range t.Args {
			sb.WriteString(" " + ref(a))
		}
		sb.WriteString(")")
		return sb.String()
	}
	var sb strings.Builder
	sb.WriteString("(" + opNames[t.Op])
	for _, a := range t.Args {
		sb.WriteString(" " + ref(a))
	}
	sb.WriteString(")")
	return sb.String()
}

// String prints the term as a tree (for diagnostics; may be large).
func (t *Term) String() string {
	return t.Head(func(a *Term) string { return a.String() })
}

// Size counts DAG nodes (for diagnostics).
func (t *Term) Size() int {
	seen := map[*Term]bool{}
	var rec func(*Term)
	rec = func(x *Term) {
		if seen[x] {
			return
		}
		seen[x] = true
		for _, a := range x.Args {
			rec(a)
		}
	}
	rec(t)
	return len(seen)
}

// FreeVars lists the variables of t in name order.
func FreeVars(ts ...*Term) []*Term {
	seen := map[*Term]bool{}
	var out []*Term
	var rec func(*Term)
	rec = func(x *Term) {
		if seen[x] {
			return
		}
		seen[x] = true
		if x.Op == OVar {
			out = append(out, x)
		}
		for _, a := range x.Args {
			rec(a)
		}
	}
	for _, t := range ts {
		rec(t)
	}
	sort.Slice(out, func(i, j int) bool { return out[i].Name < out[j].Name })
	return out
}

// HasApp reports whether t contains an uninterpreted application.
func HasApp(t *Term) bool {
	seen := map[*Term]bool{}
	var rec func(*Term) bool
	rec = func(x *Term) bool {
		if seen[x] {
			return false
		}
		seen[x] = true
		if x.Op == OApp {
			return true
		}
		for _, a := range x.Args {
			if rec(a) {
				return true
			}
		}
		return false
	}
	return rec(t)
}

// VarRange records declared ranges of Int variables (for Bounds).
var VarRange = map[*Term][2]*big.Int{}

// Bounds returns a conservative interval of an Int-sorted term, if one is cheaply known.
func Bounds(t *Term, memo map[*Term]*[2]*big.Int) (lo, hi *big.Int, ok bool) {
	if t.Sort.K != KInt {
		return nil, nil, false
	}
	if r, seen := memo[t]; seen {
		if r == nil {
			return nil, nil, false
		}
		return r[0], r[1], true
	}
	set := func(l, h *big.Int) (*big.Int, *big.Int, bool) {
		memo[t] = &[2]*big.Int{l, h}
		return l, h, true
	}
	fail := func() (*big.Int, *big.Int, bool) {
		memo[t] = nil
		return nil, nil, false
	}
	switch t.Op {
	case OConst:
		if !t.N.IsInt() {
			return fail()
		}
		return set(t.N.Num(), t.N.Num())
	case OVar:
		if r, ok := VarRange[t]; ok {
			return set(r[0], r[1])
		}
		return fail()
	case OAdd, OSub, OMul:
		al, ah, ok1 := Bounds(t.Args[0], memo)
		bl, bh, ok2 := Bounds(t.Args[1], memo)
		if !ok1 || !ok2 {
			return fail()
		}
		switch t.Op {
		case OAdd:
			return set(new(big.Int).Add(al, bl), new(big.Int).Add(ah, bh))
		case OSub:
			return set(new(big.Int).Sub(al, bh), new(big.Int).Sub(ah, bl))
		default:
			c := []*big.Int{new(big.Int).Mul(al, bl), new(big.Int).Mul(al, bh), new(big.Int).Mul(ah, bl), new(big.Int).Mul(ah, bh)}
			l, h := c[0], c[0]
			for _, x := range c[1:] {
				if x.Cmp(l) < 0 {
					l = x
				}
				if x.Cmp(h) > 0 {
					h = x
				}
			}
			return set(l, h)
		}
	case ONeg:
		al, ah, ok1 := Bounds(t.Args[0], memo)
		if !ok1 {
			return fail()
		}
		return set(new(big.Int).Neg(ah), new(big.Int).Neg(al))
	case OIte:
		al, ah, ok1 := Bounds(t.Args[1], memo)
		bl, bh, ok2 := Bounds(t.Args[2], memo)
		if !ok1 || !ok2 {
			return fail()
		}
		l, h := al, ah
		if bl.Cmp(l) < 0 {
			l = bl
		}
		if bh.Cmp(h) > 0 {
			h = bh
		}
		return set(l, h)
	case OMod:
		// 0 <= mod < |b|
		bl, bh, ok2 := Bounds(t.Args[1], memo)
		if !ok2 {
			return fail()
		}
		m := new(big.Int).Abs(bl)
		if x := new(big.Int).Abs(bh); x.Cmp(m) > 0 {
			m = x
		}
		return set(big.NewInt(0), m)
	case OIDiv:
		al, ah, ok1 := Bounds(t.Args[0], memo)
		if !ok1 {
			return fail()
		}
		m := new(big.Int).Abs(al)
		if x := new(big.Int).Abs(ah); x.Cmp(m) > 0 {
			m = x
		}
		m = new(big.Int).Add(m, big.NewInt(1))
		return set(new(big.Int).Neg(m), m)
	}
	return fail()
}

// BV2Nat is the unsigned value of a bit-vector as an Int.
func BV2Nat(a *Term) *Term {
	if a.Op == OConst {
		return IntConstBig(new(big.Int).SetUint64(a.U))
	}
	if a.Op == OInt2BV {
		// only exact when the argument is known to fit; keep symbolic
	}
	return mk(&Term{Op: OBV2Nat, Sort: Int, Args: []*Term{a}})
}

// Int2BV is the w-bit two's complement truncation of an Int.
func Int2BV(w int, a *Term) *Term {
	if a.Op == OConst && a.N.IsInt() {
		m := new(big.Int).Lsh(big.NewInt(1), uint(w))
		v := new(big.Int).Mod(a.N.Num(), m)
		return BVConst(w, v.Uint64())
	}
	if a.Op == OBV2Nat && a.Args[0].Sort.W == w {
		return a.Args[0]
	}
	return mk(&Term{Op: OInt2BV, Sort: BV(w), Args: []*Term{a}, A: w})
}

// URange exposes the cheap unsigned interval of a bit-vector term.
func URange(t *Term) (uint64, uint64) { return urange(t) }
