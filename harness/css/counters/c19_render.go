//go:build verif

package counters

import (
	pr "github.com/benoitkugler/webrender/css/properties"
	"github.com/benoitkugler/webrender/vx"
)

func vxStr(s string) pr.NamedString { return pr.NamedString{Name: "string", String: s} }

func vxDigits(a int) string {
	if a == 0 {
		return "0"
	}
	var d []byte
	for a > 0 {
		d = append([]byte{byte('0' + a%10)}, d...)
		a /= 10
	}
	return string(d)
}

// pad and negative sign: the representation is prefix + pad symbols + digits + suffix
// and the pad counts the negative signs.
func VxH_C19_pad_negative() {
	pad := vx.Choose("pad", 6)
	suffix := []string{"", ")"}[vx.Choose("suffix", 2)]
	v := vx.IntM("v", -120, 120)
	var d CounterStyleDescriptors
	d = vxDecimal()
	d.Negative = [2]pr.NamedString{vxStr("-"), vxStr(suffix)}
	d.Pad = pr.IntNamedString{NamedString: vxStr("0"), Int: pad}
	d.Range.Auto = true
	cs := CounterStyle{"x": d, "decimal": vxDecimal()}
	s := cs.RenderValue(v, "x")
	vx.Reach("rendered")
	neg := v < 0
	a := v
	if neg {
		a = -a
	}
	digits := vxDigits(a)
	signs := 0
	if neg {
		signs = 1 + len(suffix)
	}
	n := pad - len(digits) - signs
	body := digits
	for i := 0; i < n; i++ {
		body = "0" + body
	}
	want := body
	if neg {
		want = "-" + body + suffix
	}
	vx.Assert("pad-negative-representation", s == want)
}

// explicit range: inside the range the style's own algorithm, outside its fallback.
func VxH_C19_range_fallback() {
	lo := vx.Int("lo", -6, 6)
	hi := vx.Int("hi", -6, 6)
	vx.Assume(lo <= hi)
	v := vx.Int("v", -8, 8)
	var d CounterStyleDescriptors
	d.System = CounterStyleSystem{"", "cyclic", -1}
	d.Symbols = vxSyms(1)
	d.Range.Ranges = [][2]int{{lo, hi}}
	d.Fallback = "y"
	var y CounterStyleDescriptors
	y.System = CounterStyleSystem{"", "cyclic", -1}
	y.Symbols = []pr.NamedString{vxStr("z")}
	y.Range.Auto = true
	cs := CounterStyle{"x": d, "y": y, "decimal": vxDecimal()}
	s := cs.RenderValue(v, "x")
	if lo <= v && v <= hi {
		vx.Reach("in-range")
		vx.Assert("range-own", s == "a")
	} else {
		vx.Reach("out-of-range")
		vx.Assert("range-fallback", s == "z")
	}
}

// fallback / extends graphs, cycles included, terminate and end in decimal.
func VxH_C19_cycles() {
	names := []string{"x", "y", "decimal", "missing", "z"}
	cs := CounterStyle{"decimal": vxDecimal()}
	k, styles := 4, 2
	if vx.Tier() > 0 {
		k, styles = 5, 3
		names[2], names[4] = "z", "decimal"
		names[3], names[4] = names[4], "missing"
	}
	for _, n := range names[:styles] {
		var d CounterStyleDescriptors
		if vx.Bool("ext_" + n) {
			d.System = CounterStyleSystem{"extends", names[vx.Choose("extends_"+n, k)], -1}
		} else {
			d.System = CounterStyleSystem{"", "fixed", 1}
			d.Symbols = vxSyms(1)
		}
		// range never matches so that every style falls back
		d.Range.Ranges = [][2]int{{100, 100}}
		d.Fallback = names[vx.Choose("fallback_"+n, k)]
		cs[n] = d
	}
	v := vx.Int("v", 0, 9)
	s := cs.RenderValue(v, "x")
	vx.Reach("terminated")
	// every chain ends in decimal, or in "a" when an extends chain reaches decimal's range... the only
	// styles that can represent v are decimal (digit) and nothing else: ranges exclude v.
	ok := len(s) == 1 && int(s[0]) == '0'+v
	vx.Assert("cycles-end-in-decimal", ok)
}

// pad with systems that do not use a negative sign (cyclic, fixed): the pad is
// not reduced for negative values, and no sign is printed.
func VxH_C19_pad_nosign() {
	pad := vx.Choose("pad", 5)
	fixed := vx.Bool("fixed")
	v := vx.Int("v", -6, 6)
	var d CounterStyleDescriptors
	if fixed {
		d.System = CounterStyleSystem{"", "fixed", -3}
		d.Symbols = vxSyms(4)
	} else {
		d.System = CounterStyleSystem{"", "cyclic", -1}
		d.Symbols = vxSyms(2)
	}
	d.Negative = [2]pr.NamedString{vxStr("-"), vxStr("")}
	d.Pad = pr.IntNamedString{NamedString: vxStr("0"), Int: pad}
	d.Range.Auto = true
	cs := CounterStyle{"x": d, "decimal": vxDecimal()}
	s := cs.RenderValue(v, "x")
	if fixed && (v < -3 || v > 0) {
		vx.Reach("fixed-out-of-range")
		vx.Assert("fallback-decimal", s == cs.RenderValue(v, "decimal"))
		return
	}
	vx.Reach("rendered")
	want := 1
	if pad > 1 {
		want = pad
	}
	vx.Assert("pad-length", len(s) == want)
	for i := 0; i+1 < len(s); i++ {
		vx.Assert("pad-symbol", s[i] == '0')
	}
	var sym int
	if fixed {
		sym = 'a' + (v + 3)
	} else {
		sym = 'a' + vxMod(v-1, 2)
	}
	vx.Assert("last-is-symbol", int(s[len(s)-1]) == sym)
}

// fallback chains that leave a style through its *algorithm* (fixed out of symbols, alphabetic
// and additive unable to represent the value) rather than through its range: every chain,
// cyclic ones included, terminates and prints what the first style able to represent the
// value prints (decimal when the chain loops, reaches decimal or names a missing style).
func VxH_C19_fallback_cycles() {
	names := []string{"x", "y", "z", "decimal", "missing"}
	styles := 2 + vx.Tier()
	cs := CounterStyle{"decimal": vxDecimal()}
	kind := map[string]int{}
	fallback := map[string]string{}
	for _, n := range names[:styles] {
		var d CounterStyleDescriptors
		kind[n] = vx.Choose("kind_"+n, 3)
		switch kind[n] {
		case 0:
			d.System = CounterStyleSystem{"", "fixed", 1}
			d.Symbols = vxSyms(1)
		case 1:
			d.System = CounterStyleSystem{"", "alphabetic", -1}
			d.Symbols = vxSyms(2)
		default:
			d.System = CounterStyleSystem{"", "additive", -1}
			d.AdditiveSymbols = []pr.IntNamedString{{Int: 2, NamedString: vxStr("b")}}
		}
		d.Range.Auto = true
		choices := append(append([]string{}, names[:styles]...), "decimal", "missing")
		fallback[n] = choices[vx.Choose("fallback_"+n, len(choices))]
		d.Fallback = fallback[n]
		d.Negative = [2]pr.NamedString{vxStr("-"), vxStr("")}
		cs[n] = d
	}
	v := vx.Int("v", 0, 4)
	got := cs.RenderValue(v, "x")
	vx.Reach("terminated")
	representable := func(n string) bool {
		switch kind[n] {
		case 0:
			return v == 1
		case 1:
			return v >= 1
		default:
			// the additive algorithm of Counter Styles 3 returns the empty string for 0 when there
			// is no zero-weight tuple ("the loop ended because value is 0")
			return v%2 == 0
		}
	}
	final := "decimal"
	seen := map[string]bool{}
	for cur := "x"; ; cur = fallback[cur] {
		if _, user := kind[cur]; !user || seen[cur] {
			break
		}
		seen[cur] = true
		if representable(cur) {
			final = cur
			break
		}
	}
	want := cs.RenderValue(v, "decimal")
	if final != "decimal" {
		vx.Reach("user-style-renders")
		d := cs[final]
		d.Fallback = "decimal"
		want = CounterStyle{"s": d, "decimal": vxDecimal()}.RenderValue(v, "s")
	}
	vx.ObserveString("got", got)
	vx.ObserveString("want", want)
	vx.Assert("fallback-chain-result", got == want)
}

// extends: the extending style takes the algorithm (and symbols) of the extended one and every
// descriptor it does not declare itself; `range: auto` is a declaration.
func VxH_C19_extends_merge() {
	var base CounterStyleDescriptors
	base.System = CounterStyleSystem{"", "numeric", -1}
	base.Symbols = []pr.NamedString{vxStr("0"), vxStr("1"), vxStr("2")}
	base.Range.Ranges = [][2]int{{1, 3}}
	base.Negative = [2]pr.NamedString{vxStr("~"), vxStr("")}
	base.Pad = pr.IntNamedString{NamedString: vxStr("_"), Int: 2}
	base.Fallback = "decimal"
	var x CounterStyleDescriptors
	x.System = CounterStyleSystem{"extends", "y", -1}
	merged := base
	switch vx.Choose("range", 3) {
	case 1:
		x.Range.Auto = true
		merged.Range = x.Range
	case 2:
		x.Range.Ranges = [][2]int{{-2, 0}, {5, 7}}
		merged.Range = x.Range
	}
	if vx.Choose("pad", 2) == 1 {
		x.Pad = pr.IntNamedString{NamedString: vxStr("*"), Int: 3}
		merged.Pad = x.Pad
	}
	if vx.Choose("negative", 2) == 1 {
		x.Negative = [2]pr.NamedString{vxStr("!"), vxStr("?")}
		merged.Negative = x.Negative
	}
	if vx.Choose("fallback", 2) == 1 {
		x.Fallback = "w"
		merged.Fallback = "w"
	}
	var w CounterStyleDescriptors
	w.System = CounterStyleSystem{"", "cyclic", -1}
	w.Symbols = vxSyms(1)
	w.Range.Auto = true
	cs := CounterStyle{"x": x, "y": base, "w": w, "decimal": vxDecimal()}
	v := vx.Int("v", -3, 8)
	got := cs.RenderValue(v, "x")
	vx.Reach("rendered")
	want := CounterStyle{"s": merged, "w": w, "decimal": vxDecimal()}.RenderValue(v, "s")
	vx.ObserveString("got", got)
	vx.ObserveString("want", want)
	vx.Assert("extends-merges-undeclared-descriptors-only", got == want)
}

// symbolic and alphabetic are defined on strictly positive values only: with an explicit range
// that lets 0 through, 0 is printed by the fallback style; a negative value prints the sign and
// the representation of its absolute value.
func VxH_C19_explicit_range_zero() {
	sys := []string{"symbolic", "alphabetic"}[vx.Choose("sys", 2)]
	v := vx.Int("v", -6, 6)
	cs := vxStyle(sys, 2)
	d := cs["x"]
	d.Range = pr.OptionalRanges{Ranges: [][2]int{{-10, 10}}}
	cs["x"] = d
	s := cs.RenderValue(v, "x")
	vx.Reach("rendered")
	switch {
	case v == 0:
		vx.Assert("zero-falls-back", s == "0")
	case v < 0:
		vx.Assert("negative-is-sign-plus-absolute-value", s == "-"+cs.RenderValue(-v, "x"))
	default:
		vx.Assert("positive-not-empty", len(s) > 0)
	}
}
