//go:build verif

package counters

import (
	pr "github.com/benoitkugler/webrender/css/properties"
	"github.com/benoitkugler/webrender/vx"
)

// decimal as in the UA stylesheet: numeric over 0-9.
func vxDecimal() CounterStyleDescriptors {
	var d CounterStyleDescriptors
	d.System = CounterStyleSystem{"", "numeric", -1}
	for _, c := range "0123456789" {
		d.Symbols = append(d.Symbols, pr.NamedString{Name: "string", String: string(c)})
	}
	d.Negative = [2]pr.NamedString{{Name: "string", String: "-"}, {Name: "string", String: ""}}
	return d
}

func vxSyms(n int) []pr.NamedString {
	var out []pr.NamedString
	for i := 0; i < n; i++ {
		out = append(out, pr.NamedString{Name: "string", String: string(rune('a' + i))})
	}
	return out
}

func vxStyle(system string, n int) CounterStyle {
	var d CounterStyleDescriptors
	d.System = CounterStyleSystem{"", system, 1}
	d.Symbols = vxSyms(n)
	d.Negative = [2]pr.NamedString{{Name: "string", String: "-"}, {Name: "string", String: ""}}
	d.Range.Auto = true
	return CounterStyle{"x": d, "decimal": vxDecimal()}
}

// mathematical modulo
func vxMod(a, n int) int { return ((a % n) + n) % n }

// cyclic: symbols[(v-1) mod n] for every integer v.
func VxH_C19_cyclic() {
	n := vx.Choose("n", 4) + 1
	v := vx.Int("v", -1<<31, 1<<31-1)
	cs := vxStyle("cyclic", n)
	s := cs.RenderValue(v, "x")
	vx.Reach("rendered")
	vx.Assert("cyclic-one-symbol", len(s) == 1)
	vx.Assert("cyclic-symbol", int(s[0]) == 'a'+vxMod(v-1, n))
}

// fixed: symbols[v-first] inside the range, decimal fallback outside.
func VxH_C19_fixed() {
	n := vx.Choose("n", 3) + 1
	first := vx.Int("first", -4, 4)
	v := vx.Int("v", -9, 9)
	var d CounterStyleDescriptors
	d.System = CounterStyleSystem{"", "fixed", first}
	d.Symbols = vxSyms(n)
	d.Range.Auto = true
	cs := CounterStyle{"x": d, "decimal": vxDecimal()}
	s := cs.RenderValue(v, "x")
	if first <= v && v < first+n {
		vx.Reach("in-range")
		vx.Assert("fixed-symbol", len(s) == 1 && int(s[0]) == 'a'+(v-first))
	} else {
		vx.Reach("fallback")
		want := cs.RenderValue(v, "decimal")
		vx.Assert("fixed-fallback-decimal", s == want)
	}
}

// numeric: base-n digits, sign prefix for negatives.
func VxH_C19_numeric() {
	n := vx.Choose("n", 3) + 2
	lim := n * n * n
	if vx.Tier() > 0 {
		lim *= n * n
	}
	v := vx.IntM("v", -lim, lim)
	cs := vxStyle("numeric", n)
	s := cs.RenderValue(v, "x")
	vx.Reach("rendered")
	// oracle
	neg := v < 0
	a := v
	if neg {
		a = -a
	}
	var digits []byte
	if a == 0 {
		digits = []byte{'a'}
	}
	for a > 0 {
		digits = append([]byte{byte('a' + a%n)}, digits...)
		a /= n
	}
	want := string(digits)
	if neg {
		want = "-" + want
	}
	vx.Assert("numeric-digits", s == want)
}

// alphabetic: bijective base-n.
func VxH_C19_alphabetic() {
	n := vx.Choose("n", 3) + 2
	lim := n + n*n + n*n*n
	if vx.Tier() > 0 {
		lim += n * n * n * n
	}
	v := vx.IntM("v", 1, lim)
	cs := vxStyle("alphabetic", n)
	s := cs.RenderValue(v, "x")
	vx.Reach("rendered")
	// value of a bijective numeral: sum (d_i+1) n^i = v
	acc := 0
	for i := 0; i < len(s); i++ {
		acc = acc*n + int(s[i]-'a') + 1
	}
	vx.Assert("alphabetic-value", acc == v)
}

// symbolic: symbol (v-1) mod n repeated ceil(v/n) times, for v >= 1.
func VxH_C19_symbolic() {
	n := vx.Choose("n", 3) + 1
	v := vx.Int("v", 1, 4*n)
	cs := vxStyle("symbolic", n)
	s := cs.RenderValue(v, "x")
	vx.Reach("rendered")
	vx.Assert("symbolic-count", len(s) == (v+n-1)/n)
	for i := 0; i < len(s); i++ {
		vx.Assert("symbolic-symbol", int(s[i]) == 'a'+vxMod(v-1, n))
	}
}

// symbolic/alphabetic styles must fall back to decimal below their range (v <= 0), never crash.
func VxH_C19_range_low() {
	sys := []string{"symbolic", "alphabetic"}[vx.Choose("sys", 2)]
	v := vx.Int("v", -40, 0)
	cs := vxStyle(sys, 2)
	s := cs.RenderValue(v, "x")
	vx.Reach("rendered")
	vx.Assert("fallback-to-decimal", s == cs.RenderValue(v, "decimal"))
}

// additive: greedy decomposition over descending weights.
func VxH_C19_additive() {
	w0 := vx.IntM("w0", 0, 12)
	w1 := vx.IntM("w1", 0, 12)
	vx.Assume(w0 > w1)
	v := vx.IntM("v", 0, 24)
	var d CounterStyleDescriptors
	d.System = CounterStyleSystem{"", "additive", -1}
	d.AdditiveSymbols = []pr.IntNamedString{
		{Int: w0, NamedString: pr.NamedString{Name: "string", String: "a"}},
		{Int: w1, NamedString: pr.NamedString{Name: "string", String: "b"}},
	}
	d.Range.Auto = true
	cs := CounterStyle{"x": d, "decimal": vxDecimal()}
	s := cs.RenderValue(v, "x")
	vx.Reach("rendered")
	// every a precedes every b, and the weights add up to v, or the decimal fallback was used
	na, nb, other := 0, 0, 0
	sorted := true
	for i := 0; i < len(s); i++ {
		switch s[i] {
		case 'a':
			na++
			if nb > 0 {
				sorted = false
			}
		case 'b':
			nb++
		default:
			other++
		}
	}
	if v == 0 && w1 != 0 {
		// value 0 without a zero-weight tuple: the specification text yields the empty
		// string, browsers use the fallback; neither is asserted.
		vx.Reach("additive-zero-unspecified")
		return
	}
	if other == 0 && len(s) > 0 {
		vx.Reach("additive-representation")
		vx.Assert("additive-sum", sorted && na*w0+nb*w1 == v)
	} else {
		vx.Reach("additive-fallback")
		vx.Assert("additive-fallback-decimal", s == cs.RenderValue(v, "decimal"))
	}
}
