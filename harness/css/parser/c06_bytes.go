//go:build verif

package parser

import (
	"unicode/utf8"

	"github.com/benoitkugler/webrender/vx"
)

func vxIsNameStartByte(b byte) bool {
	return vx.Or(vx.Or(vx.And('a' <= b, b <= 'z'), vx.And('A' <= b, b <= 'Z')), vx.Or(b == '_', b >= 0x80))
}

// CSS Syntax 4.3.9 "would start an identifier" on the (preprocessed) bytes at position 0.
func vxWouldStartIdent(s []byte) bool {
	at := func(i int) (byte, bool) {
		if i < len(s) {
			return s[i], true
		}
		return 0, false
	}
	validEscape := func(i int) bool { // s[i] is '\\' followed by anything but a newline (EOF included)
		c, ok := at(i)
		if !ok || c != '\\' {
			return false
		}
		n, ok := at(i + 1)
		return !ok || n != '\n'
	}
	c0, ok := at(0)
	if !ok {
		return false
	}
	if c0 == '-' {
		c1, ok := at(1)
		if !ok {
			return false
		}
		return vxIsNameStartByte(c1) || c1 == '-' || validEscape(1)
	}
	if vxIsNameStartByte(c0) {
		return true
	}
	return validEscape(0)
}

// the tokenizer's identifier-start test equals the specification's, at every input.
func VxH_C06_identstart() {
	n := vx.Choose("n", 3+vx.Tier()) + 1
	src := vx.Bytes("s", n)
	vx.Assume(utf8.Valid(src))
	for i := 0; i < n; i++ { // already preprocessed text: no NUL, CR, FF
		vx.Assume(src[i] != 0 && src[i] != '\r' && src[i] != '\f')
	}
	tk := tokenizer{src: src}
	got := tk.isIdentStart()
	vx.Reach("decided")
	vx.Assert("ident-start-as-specified", got == vxWouldStartIdent(src))
}

func vxIsDigit(b byte) bool { return '0' <= b && b <= '9' }

// length of the longest prefix of s that is a CSS number (4.3.12), 0 if none; and whether it is an integer.
func vxNumberPrefix(s []byte) (int, bool) {
	i := 0
	if i < len(s) && (s[i] == '+' || s[i] == '-') {
		i++
	}
	intDigits := 0
	for i < len(s) && vxIsDigit(s[i]) {
		i++
		intDigits++
	}
	isInt := true
	fracDigits := 0
	if i+1 < len(s) && s[i] == '.' && vxIsDigit(s[i+1]) {
		i++
		for i < len(s) && vxIsDigit(s[i]) {
			i++
			fracDigits++
		}
		isInt = false
	}
	if intDigits == 0 && fracDigits == 0 {
		return 0, false
	}
	if i < len(s) && (s[i] == 'e' || s[i] == 'E') {
		j := i + 1
		if j < len(s) && (s[j] == '+' || s[j] == '-') {
			j++
		}
		if j < len(s) && vxIsDigit(s[j]) {
			for j < len(s) && vxIsDigit(s[j]) {
				j++
			}
			i = j
			isInt = false
		}
	}
	return i, isInt
}

// numbers: the numeric token covers exactly the longest prefix in the number grammar.
func VxH_C06_number() {
	n := vx.Choose("n", 3+vx.Tier()) + 1
	src := vx.Bytes("s", n)
	vx.Assume(utf8.Valid(src))
	for i := 0; i < n; i++ {
		vx.Assume(src[i] != 0 && src[i] != '\r' && src[i] != '\f')
	}
	toks := Tokenize(src, false)
	l, isInt := vxNumberPrefix(src)
	startsIdent := vxWouldStartIdent(src)
	if l == 0 || startsIdent {
		vx.Reach("not-a-number")
		if len(toks) > 0 && !startsIdent && !(src[0] == 'u' || src[0] == 'U') {
			k := toks[0].Kind()
			vx.Assert("no-numeric-token", k != KNumber && k != KPercentage && k != KDimension)
		}
		return
	}
	vx.Reach("number")
	vx.Assert("has-token", len(toks) > 0)
	var nv numberVal
	switch t := toks[0].(type) {
	case Number:
		nv = t.numberVal
		vx.Assert("number-not-followed-by-unit", l == n || !(vxWouldStartIdent(src[l:]) || src[l] == '%'))
	case Percentage:
		nv = t.numberVal
		vx.Assert("percentage-sign", l < n && src[l] == '%')
	case Dimension:
		nv = t.numberVal
		vx.Assert("dimension-unit-start", l < n && vxWouldStartIdent(src[l:]))
	default:
		vx.Assert("numeric-token-kind", false)
	}
	vx.Assert("number-repr-is-longest-prefix", nv.Value == string(src[:l]))
	vx.Assert("number-integer-flag", nv.IsInt() == isInt)
}

func vxHexVal(b byte) (int, bool) {
	switch {
	case '0' <= b && b <= '9':
		return int(b - '0'), true
	case 'a' <= b && b <= 'f':
		return int(b-'a') + 10, true
	case 'A' <= b && b <= 'F':
		return int(b-'A') + 10, true
	}
	return 0, false
}

// escapes: "\" + hex digits (1-6) + optional white space, or "\" + any other code point;
// the escape consumes exactly that much and yields that code point.
func VxH_C06_escape() {
	n := vx.Choose("n", 3+2*vx.Tier())
	rest := vx.Bytes("s", n)
	vx.Assume(utf8.Valid(rest))
	for i := 0; i < n; i++ {
		vx.Assume(rest[i] != 0 && rest[i] != '\r' && rest[i] != '\f')
	}
	src := append([]byte{'\\'}, rest...)
	if n > 0 && rest[0] == '\n' {
		vx.Reach("not-an-escape")
		toks := Tokenize(src, false)
		vx.Assert("backslash-newline-is-a-delim", len(toks) >= 1 && IsLiteral(toks[0], "\\"))
		return
	}
	// oracle
	var r rune
	k := 0 // bytes of rest consumed by the escape
	if n == 0 {
		r = 0xFFFD
	} else if _, isHex := vxHexVal(rest[0]); isHex {
		v := 0
		for k < n && k < 6 {
			d, ok := vxHexVal(rest[k])
			if !ok {
				break
			}
			v = v*16 + d
			k++
		}
		if k < n && (rest[k] == ' ' || rest[k] == '\n' || rest[k] == '\t') {
			k++
		}
		r = rune(v)
		if v == 0 || v > 0x10FFFF || (0xD800 <= v && v <= 0xDFFF) {
			r = 0xFFFD
		}
	} else {
		var w int
		r, w = utf8.DecodeRune(rest)
		k = w
	}
	vx.Reach("escape")
	toks := Tokenize(src, false)
	vx.Assert("escape-starts-an-identifier", len(toks) >= 1 && (toks[0].Kind() == KIdent || toks[0].Kind() == KFunctionBlock || toks[0].Kind() == KURL || toks[0].Kind() == KParseError))
	// the same text with the escape replaced by an equivalent 6-digit escape followed by a space
	hex := "0123456789ABCDEF"
	alt := []byte{'\\', hex[(r>>20)&15], hex[(r>>16)&15], hex[(r>>12)&15], hex[(r>>8)&15], hex[(r>>4)&15], hex[r&15], ' '}
	alt = append(alt, rest[k:]...)
	toks2 := Tokenize(alt, false)
	vx.Assert("escape-consumes-exactly", vxToksEq(toks, toks2))
}

// the remnants of a bad url end at the first unescaped ")" (a valid escape hides
// the code point after the backslash), and what follows is tokenized normally.
func VxH_C06_badurl() {
	n := vx.Choose("n", 5+vx.Tier())
	tail := vx.Bytes("s", n)
	vx.Assume(utf8.Valid(tail))
	for i := 0; i < n; i++ {
		vx.Assume(tail[i] != 0 && tail[i] != '\r' && tail[i] != '\f')
	}
	head := []byte("url(a b") // white space followed by something else than ")" makes the url bad
	src := append(append([]byte{}, head...), tail...)
	end := n // offset in tail just after the closing parenthesis (n: none)
	for i := 0; i < n; {
		if tail[i] == '\\' && i+1 < n && tail[i+1] != '\n' {
			_, w := utf8.DecodeRune(tail[i+1:])
			i += 1 + w
			continue
		}
		if tail[i] == ')' {
			end = i + 1
			break
		}
		i++
	}
	toks := Tokenize(src, false)
	vx.Reach("tokenized")
	vx.Assert("bad-url-error-first", len(toks) >= 1 && toks[0].Kind() == KParseError)
	rest := Tokenize(tail[end:], false)
	vx.Assert("bad-url-ends-at-unescaped-paren", vxToksEq(toks[1:], rest))
}

// a full-width escape: "\" + six hexadecimal digits + a space is one identifier made of that
// code point, or of U+FFFD when it is zero, a surrogate or above U+10FFFF.
func VxH_C06_escape6() {
	src := []byte{'\\'}
	v := 0
	for i := 0; i < 6; i++ {
		b := vx.Byte("h" + string(rune('0'+i)))
		d, ok := vxHexVal(b)
		vx.Assume(ok)
		src = append(src, b)
		v = v*16 + d
	}
	src = append(src, ' ')
	toks := Tokenize(src, false)
	vx.Reach("tokenized")
	vx.Assert("one-identifier", len(toks) == 1 && toks[0].Kind() == KIdent)
	id, _ := toks[0].(Ident)
	replaced := v == 0 || v > 0x10FFFF || (0xD800 <= v && v <= 0xDFFF)
	if replaced {
		vx.Reach("replaced")
		vx.Assert("replacement-character", id.Value == "�")
	} else {
		vx.Reach("kept")
		vx.Assert("code-point-kept", id.Value == string(rune(v)))
	}
}
