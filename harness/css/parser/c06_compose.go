//go:build verif

package parser

import (
	"github.com/benoitkugler/webrender/vx"
)

// vxTok yields one token of symbolic kind (and small symbolic content).
func vxTok(id string) Token {
	idents := []string{"a", "important", "IMPORTANT"}
	lits := []string{":", ";", "!", ",", "<!--", "-->"}
	switch vx.Choose(id+".kind", 9) {
	case 0:
		return Ident{stringVal{Value: idents[vx.Choose(id+".ident", len(idents))]}}
	case 1:
		return Literal{stringVal{Value: lits[vx.Choose(id+".lit", len(lits))]}}
	case 2:
		return Whitespace{stringVal{Value: " "}}
	case 3:
		return Comment{stringVal{Value: "c"}}
	case 4:
		return AtKeyword{stringVal{Value: "m"}}
	case 5:
		if vx.Bool(id + ".filled") {
			return CurlyBracketsBlock{Arguments: []Token{Ident{stringVal{Value: "x"}}, Literal{stringVal{Value: ":"}}, Ident{stringVal{Value: "y"}}}}
		}
		return CurlyBracketsBlock{}
	case 6:
		return ParenthesesBlock{Arguments: []Token{Literal{stringVal{Value: ";"}}}}
	case 7:
		return Number{numberVal{stringVal: stringVal{Value: "1", flag: isInteger}, ValueF: 1}}
	default:
		return FunctionBlock{Name: "f", listVal: listVal{Arguments: []Token{Literal{stringVal{Value: ";"}}}}}
	}
}

func vxToks(id string, max int) []Token {
	n := vx.Choose(id+".n", max+1)
	var out []Token
	for i := 0; i < n; i++ {
		out = append(out, vxTok(id+string(rune('0'+i))))
	}
	return out
}

func vxCompEq(a, b Compound) bool {
	switch a := a.(type) {
	case QualifiedRule:
		bb, ok := b.(QualifiedRule)
		return ok && vxToksEqStrict(a.Prelude, bb.Prelude) && vxToksEqStrict(a.Content, bb.Content) && (a.Content == nil) == (bb.Content == nil)
	case AtRule:
		bb, ok := b.(AtRule)
		return ok && a.AtKeyword == bb.AtKeyword && vxToksEqStrict(a.Prelude, bb.Prelude) && vxToksEqStrict(a.Content, bb.Content) && (a.Content == nil) == (bb.Content == nil)
	case Declaration:
		bb, ok := b.(Declaration)
		return ok && a.Name == bb.Name && a.Important == bb.Important && vxToksEqStrict(a.Value, bb.Value)
	case ParseError:
		bb, ok := b.(ParseError)
		return ok && a.kind == bb.kind
	case Whitespace:
		bb, ok := b.(Whitespace)
		return ok && a.Value == bb.Value
	case Comment:
		bb, ok := b.(Comment)
		return ok && a.Value == bb.Value
	}
	return false
}

// exact token list equality (comments included)
func vxToksEqStrict(a, b []Token) bool {
	if len(a) != len(b) {
		return false
	}
	for i := range a {
		if a[i].Kind() == KComment || b[i].Kind() == KComment {
			if a[i].Kind() != b[i].Kind() {
				return false
			}
			continue
		}
		if !vxTokEq(a[i], b[i]) {
			return false
		}
	}
	return true
}

func vxCompsEq(a, b []Compound) bool {
	if len(a) != len(b) {
		return false
	}
	for i := range a {
		if !vxCompEq(a[i], b[i]) {
			return false
		}
	}
	return true
}

func vxCat(ls ...[]Token) []Token {
	var out []Token
	for _, l := range ls {
		out = append(out, l...)
	}
	return out
}

var vxSemi = []Token{Literal{stringVal{Value: ";"}}}

// error recovery is compositional: a ';' at the top level of a declaration list or of
// a block's contents ends whatever construct precedes it, so what follows parses as if alone.
func VxH_C06_compose_semicolon() {
	a, b := vxToks("a", 1+vx.Tier()), vxToks("b", 2)
	whole := vxCat(a, vxSemi, b)
	left := vxCat(a, vxSemi)
	if vx.Bool("blocks") {
		vx.Reach("blocks-contents")
		got := ParseBlocksContents(whole, false)
		want := append(ParseBlocksContents(left, false), ParseBlocksContents(b, false)...)
		vx.Assert("blocks-contents-split-at-semicolon", vxCompsEq(got, want))
	} else {
		vx.Reach("declaration-list")
		got := ParseDeclarationList(whole, false, false)
		want := append(ParseDeclarationList(left, false, false), ParseDeclarationList(b, false, false)...)
		vx.Assert("declaration-list-split-at-semicolon", vxCompsEq(got, want))
	}
}

// a qualified rule ends with its {} block, an at-rule at ';' or its block: the
// following rule never loses its head and never receives a tail.
func VxH_C06_compose_rules() {
	pre, rest := vxToks("p", 2), vxToks("r", 1+vx.Tier())
	for _, t := range pre {
		if t.Kind() == KCurlyBracketsBlock {
			return // the prelude must not already hold a block
		}
	}
	block := []Token{CurlyBracketsBlock{Arguments: []Token{Ident{stringVal{Value: "x"}}}}}
	first := vxCat(pre, block)
	stylesheet := vx.Bool("stylesheet")
	parse := func(l []Token) []Compound {
		if stylesheet {
			return ParseStylesheet(l, false, false)
		}
		return ParseRuleList(l, false, false)
	}
	got := parse(vxCat(first, rest))
	want := append(parse(first), parse(rest)...)
	vx.Reach("rules")
	vx.Assert("rule-ends-at-its-block", vxCompsEq(got, want))
}

// !important is recognised exactly at the end of the value, in any case, and
// cut off from the value.
func VxH_C06_important() {
	v := vxToks("v", 2)
	for _, t := range v {
		if IsLiteral(t, ";") {
			return
		}
	}
	name := []Token{Ident{stringVal{Value: "p"}}, Literal{stringVal{Value: ":"}}}
	tail := []Token{Literal{stringVal{Value: "!"}}}
	if vx.Bool("ws1") {
		tail = append(tail, Whitespace{stringVal{Value: " "}})
	}
	word := []string{"important", "IMPORTANT", "ImPortant", "importan"}[vx.Choose("word", 4)]
	tail = append(tail, Ident{stringVal{Value: word}})
	if vx.Bool("ws2") {
		tail = append(tail, Whitespace{stringVal{Value: " "}})
	}
	d := ParseOneDeclaration(vxCat(name, v, tail))
	decl, ok := d.(Declaration)
	if !ok {
		vx.Reach("not-a-declaration")
		return
	}
	vx.Reach("declaration")
	if word == "importan" {
		vx.Assert("not-important", !decl.Important && len(decl.Value) == len(v)+len(tail))
	} else {
		vx.Assert("important-flag", decl.Important)
		vx.Assert("important-cut-from-value", vxToksEqStrict(decl.Value, v))
	}
}
