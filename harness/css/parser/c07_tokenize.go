//go:build verif

package parser

import (
	"github.com/benoitkugler/webrender/vx"
)

// Tokenize terminates without panicking on every byte string up to the bound.
func VxH_C07_tokenize() {
	n := vx.Choose("n", 3+vx.Tier())
	src := vx.Bytes("s", n)
	toks := Tokenize(src, vx.Bool("skipComments"))
	vx.Reach("tokenized")
	_ = toks
}
