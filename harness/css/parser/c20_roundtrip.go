//go:build verif

package parser

import (
	"unicode/utf8"

	"github.com/benoitkugler/webrender/vx"
)

// vxTokEq compares two tokens ignoring source positions.
func vxTokEq(a, b Token) bool {
	if a.Kind() != b.Kind() {
		return false
	}
	switch a := a.(type) {
	case Literal:
		return a.Value == b.(Literal).Value
	case ParseError:
		return a.kind == b.(ParseError).kind
	case Comment:
		return a.Value == b.(Comment).Value
	case Whitespace:
		return a.Value == b.(Whitespace).Value
	case Ident:
		return a.Value == b.(Ident).Value
	case AtKeyword:
		return a.Value == b.(AtKeyword).Value
	case Hash:
		return vx.And(a.Value == b.(Hash).Value, a.isIdentifier() == b.(Hash).isIdentifier())
	case String:
		return vx.And(a.Value == b.(String).Value, a.flag == b.(String).flag)
	case URL:
		return vx.And(a.Value == b.(URL).Value, a.flag == b.(URL).flag)
	case UnicodeRange:
		return vx.And(a.Start == b.(UnicodeRange).Start, a.End == b.(UnicodeRange).End)
	case Number:
		return vx.And(a.Value == b.(Number).Value, a.IsInt() == b.(Number).IsInt())
	case Percentage:
		return vx.And(a.Value == b.(Percentage).Value, a.IsInt() == b.(Percentage).IsInt())
	case Dimension:
		bd := b.(Dimension)
		return vx.And(vx.And(a.Value == bd.Value, a.IsInt() == bd.IsInt()), a.Unit == bd.Unit)
	case ParenthesesBlock:
		return vxToksEq(a.Arguments, b.(ParenthesesBlock).Arguments)
	case SquareBracketsBlock:
		return vxToksEq(a.Arguments, b.(SquareBracketsBlock).Arguments)
	case CurlyBracketsBlock:
		return vxToksEq(a.Arguments, b.(CurlyBracketsBlock).Arguments)
	case FunctionBlock:
		bf := b.(FunctionBlock)
		return vx.And(a.Name == bf.Name, vxToksEq(a.Arguments, bf.Arguments))
	}
	return false
}

func vxToksEq(a, b []Token) bool {
	a, b = vxNoComments(a), vxNoComments(b) // comments are ignored at every nesting level
	if len(a) != len(b) {
		return false
	}
	ok := true
	for i := range a {
		ok = vx.And(ok, vxTokEq(a[i], b[i]))
	}
	return ok
}

func vxHasError(l []Token) bool {
	for _, t := range l {
		switch t := t.(type) {
		case ParseError:
			return true
		case ParenthesesBlock:
			if vxHasError(t.Arguments) {
				return true
			}
		case SquareBracketsBlock:
			if vxHasError(t.Arguments) {
				return true
			}
		case CurlyBracketsBlock:
			if vxHasError(t.Arguments) {
				return true
			}
		case FunctionBlock:
			if vxHasError(t.Arguments) {
				return true
			}
		}
	}
	return false
}

func vxNoComments(l []Token) []Token {
	var out []Token
	for _, t := range l {
		if t.Kind() != KComment {
			out = append(out, t)
		}
	}
	return out
}

// a symbolic value string: valid UTF-8 without NUL.
func vxValue(id string, n int) string {
	v := vx.String(id, n)
	for i := 0; i < n; i++ {
		vx.Assume(v[i] != 0)
	}
	vx.Assume(utf8.ValidString(v))
	return v
}

// identifiers, at-keywords, hashes, function names: Serialize then Tokenize gives the token back.
func VxH_C20_ident() {
	n := vx.Choose("n", 3+vx.Tier()) + 1
	v := vxValue("v", n)
	var tok Token
	switch vx.Choose("kind", 4) {
	case 0:
		tok = Ident{stringVal{Value: v}}
	case 1:
		tok = AtKeyword{stringVal{Value: v}}
	case 2:
		tok = Hash{stringVal{Value: v, flag: isIdentifier}}
	default:
		// the tokenizer never yields a function named url with unquoted content: that is a url token
		if n == 3 {
			vx.Assume(!vx.And(vx.And(vx.Or(v[0] == 'u', v[0] == 'U'), vx.Or(v[1] == 'r', v[1] == 'R')), vx.Or(v[2] == 'l', v[2] == 'L')))
		}
		tok = FunctionBlock{Name: v}
	}
	text := Serialize([]Token{tok})
	back := Tokenize([]byte(text), false)
	vx.Reach("reparsed")
	vx.Assert("ident-roundtrip", vxToksEq(back, []Token{tok}))
}

// strings and urls
func VxH_C20_string() {
	n := vx.Choose("n", 4+vx.Tier())
	v := vxValue("v", n)
	var tok Token
	if vx.Bool("url") {
		tok = URL{stringVal{Value: v}}
	} else {
		tok = String{stringVal{Value: v}}
	}
	text := Serialize([]Token{tok})
	back := Tokenize([]byte(text), false)
	vx.Reach("reparsed")
	vx.Assert("string-roundtrip", vxToksEq(back, []Token{tok}))
}

// every error-free token list obtained from source text re-parses to itself.
func VxH_C20_source() {
	n := vx.Choose("n", 4+vx.Tier())
	src := vx.Bytes("s", n)
	vx.Assume(utf8.Valid(src)) // CSS Syntax works on decoded code points; undecodable bytes are outside the claim
	toks := Tokenize(src, false)
	if vxHasError(toks) {
		vx.Reach("parse-error")
		return
	}
	for i := 0; i+1 < len(toks); i++ {
		if id, ok := toks[i].(Ident); ok && id.Value == "--" && IsLiteral(toks[i+1], ">") {
			vx.Reach("region:ident-dashdash-then-gt")
		}
	}
	text := Serialize(toks)
	back := Tokenize([]byte(text), false)
	vx.Reach("reparsed")
	vx.Assert("source-roundtrip", vxToksEq(vxNoComments(back), vxNoComments(toks)))
}

// two adjacent tokens, each obtained from its own small source text: the
// serializer must keep them apart.
func VxH_C20_pairs() {
	n1 := vx.Choose("n1", 2) + 1
	n2 := vx.Choose("n2", 2) + 1
	if vx.Tier() == 0 && n1 == 2 && n2 == 2 {
		return // quick tier: at most one of the two sources has two bytes
	}
	s1, s2 := vx.Bytes("a", n1), vx.Bytes("b", n2)
	vx.Assume(utf8.Valid(s1))
	vx.Assume(utf8.Valid(s2))
	t1, t2 := Tokenize(s1, false), Tokenize(s2, false)
	if len(t1) != 1 || len(t2) != 1 || vxHasError(t1) || vxHasError(t2) {
		vx.Reach("not-single-tokens")
		return
	}
	if t1[0].Kind() == KComment || t2[0].Kind() == KComment {
		return
	}
	if t1[0].Kind() == KWhitespace && t2[0].Kind() == KWhitespace {
		return // the tokenizer never yields two adjacent white space tokens
	}
	if id, ok := t1[0].(Ident); ok && id.Value == "--" {
		if IsLiteral(t2[0], ">") {
			vx.Reach("region:ident-dashdash-then-gt")
		}
	}
	list := []Token{t1[0], t2[0]}
	text := Serialize(list)
	back := Tokenize([]byte(text), false)
	vx.Reach("reparsed")
	vx.Assert("pair-roundtrip", vxToksEq(vxNoComments(back), list))
}

// dimensions whose unit could be read as an exponent.
func VxH_C20_unit() {
	n := vx.Choose("n", 2+vx.Tier()) + 1
	unit := vxValue("u", n)
	isInt := vx.Bool("int")
	repr := "1"
	if !isInt {
		repr = "1.5"
	}
	var tok Token = Dimension{Unit: unit, numberVal: numberVal{stringVal: stringVal{Value: repr, flag: newFlag(isInteger, isInt)}, ValueF: 1}}
	text := Serialize([]Token{tok})
	back := Tokenize([]byte(text), false)
	vx.Reach("reparsed")
	vx.Assert("unit-roundtrip", vxToksEq(back, []Token{tok}))
}

// any single token followed by the CDC token "-->" (which needs three bytes of source and is
// out of the byte budget of VxH_C20_pairs): the serializer keeps them apart.
func VxH_C20_pairs_cdc() {
	n1 := vx.Choose("n1", 2+vx.Tier()) + 1
	s1 := vx.Bytes("a", n1)
	vx.Assume(utf8.Valid(s1))
	t1 := Tokenize(s1, false)
	if len(t1) != 1 || vxHasError(t1) || t1[0].Kind() == KComment {
		vx.Reach("not-a-single-token")
		return
	}
	cdc := Tokenize([]byte("-->"), false)
	vx.Assert("cdc-is-one-token", len(cdc) == 1)
	list := []Token{t1[0], cdc[0]}
	text := Serialize(list)
	back := Tokenize([]byte(text), false)
	vx.Reach("reparsed")
	vx.Assert("pair-roundtrip", vxToksEq(vxNoComments(back), list))
}
