//go:build verif

package parser

import "github.com/benoitkugler/webrender/utils"

// VxPercentage builds a percentage token (no exported constructor exists).
func VxPercentage(v utils.Fl) Percentage {
	return Percentage{numberVal{stringVal: stringVal{Value: "1"}, ValueF: v}}
}
