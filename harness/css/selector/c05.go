//go:build verif

package selector

import (
	"github.com/benoitkugler/webrender/vx"
	"golang.org/x/net/html"
)

// vxFamily builds a parent with k children whose node type (element / text /
// comment) and tag (a / b) are symbolic; it returns the parent and the children.
func vxFamily(k int) (*html.Node, []*html.Node) {
	parent := &html.Node{Type: html.ElementNode, Data: "p"}
	var kids []*html.Node
	tags := []string{"a", "b"}
	for i := 0; i < k; i++ {
		id := string(rune('0' + i))
		c := &html.Node{}
		switch vx.Choose("type"+id, 3) {
		case 0:
			c.Type = html.ElementNode
			c.Data = tags[vx.Choose("tag"+id, 2)]
		case 1:
			c.Type = html.TextNode
			c.Data = "x"
		default:
			c.Type = html.CommentNode
			c.Data = "x"
		}
		parent.AppendChild(c)
		kids = append(kids, c)
	}
	return parent, kids
}

// 1-based index of kids[t] among its element siblings (of the same tag when
// ofType), counted from the start or from the end; 0 when kids[t] is not an element.
func vxIndex(kids []*html.Node, t int, last, ofType bool) int {
	n := kids[t]
	if n.Type != html.ElementNode {
		return 0
	}
	idx := 0
	for i, c := range kids {
		if c.Type != html.ElementNode || (ofType && c.Data != n.Data) {
			continue
		}
		if (!last && i <= t) || (last && i >= t) {
			idx++
		}
	}
	return idx
}

// :nth-*(an+b) with small symbolic a, b: the match equals "exists n >= 0 with a*n+b = index".
func VxH_C05_nth() {
	k := vx.Choose("k", 3+vx.Tier()) + 1
	_, kids := vxFamily(k)
	t := vx.Choose("t", k)
	last, ofType := vx.Bool("last"), vx.Bool("ofType")
	a, b := vx.Choose("a", 11)-5, vx.IntM("b", -5, 5)
	got := nthPseudoClassSelector{a: a, b: b, last: last, ofType: ofType}.Match(kids[t])
	idx := vxIndex(kids, t, last, ofType)
	if idx == 0 {
		vx.Reach("not-an-element")
		vx.Assert("nth-non-element-never-matches", !got)
		return
	}
	vx.Reach("element")
	want := false
	for n := 0; n <= 10; n++ { // |idx - b| <= 9, so n <= 9 whenever a != 0
		want = vx.Or(want, a*n+b == idx)
	}
	vx.Assert("nth-matches-iff-an+b", got == want)
}

// the same over wide coefficient ranges: a witness n is checked by multiplication,
// and the absence of a match is checked against an arbitrary n (universally quantified by the solver).
func VxH_C05_nth_wide() {
	k := 3
	_, kids := vxFamily(k)
	t := vx.Choose("t", k)
	last, ofType := vx.Bool("last"), vx.Bool("ofType")
	lim := 1 << 10
	if vx.Tier() > 0 {
		lim = 1 << 20
	}
	// the step is enumerated (products stay linear for the solver), offset and witness are wide
	a, b := vx.Choose("a", 17)-8, vx.IntM("b", -lim, lim)
	n := vx.IntM("n", 0, 2*lim+8)
	got := nthPseudoClassSelector{a: a, b: b, last: last, ofType: ofType}.Match(kids[t])
	idx := vxIndex(kids, t, last, ofType)
	if idx == 0 {
		vx.Assert("nth-non-element-never-matches", !got)
		return
	}
	if got {
		vx.Reach("match")
		d := idx - b
		if a == 0 {
			vx.Assert("witness-a0", d == 0)
		} else {
			q := d / a
			vx.Assert("witness", a*q == d && q >= 0)
		}
	} else {
		vx.Reach("no-match")
		vx.Assert("no-witness-exists", a*n+b != idx)
	}
}

// :only-child / :only-of-type
func VxH_C05_only() {
	k := vx.Choose("k", 3) + 1
	_, kids := vxFamily(k)
	t := vx.Choose("t", k)
	ofType := vx.Bool("ofType")
	got := onlyChildPseudoClassSelector{ofType: ofType}.Match(kids[t])
	n := kids[t]
	if n.Type != html.ElementNode {
		vx.Assert("only-non-element", !got)
		return
	}
	count := 0
	for _, c := range kids {
		if c.Type == html.ElementNode && (!ofType || c.Data == n.Data) {
			count++
		}
	}
	vx.Reach("element")
	vx.Assert("only-child", got == (count == 1))
}

func vxLower(b byte) byte { return vx.IteByte(vx.And('A' <= b, b <= 'Z'), b+32, b) }

func vxIsSpace(b byte) bool {
	return vx.Or(vx.Or(b == ' ', b == '\t'), vx.Or(vx.Or(b == '\n', b == '\r'), b == '\f'))
}

func vxByteEq(x, y byte, fold bool) bool {
	if fold {
		return vxLower(x) == vxLower(y)
	}
	return x == y
}

// s[i:i+len(v)] == v
func vxAt(s, v string, i int, fold bool) bool {
	if i < 0 || i+len(v) > len(s) {
		return false
	}
	ok := true
	for j := 0; j < len(v); j++ {
		ok = vx.And(ok, vxByteEq(s[i+j], v[j], fold))
	}
	return ok
}

// attribute operators with symbolic (ASCII) attribute and selector values.
func VxH_C05_attr() {
	ns, nv := 3, 2
	if vx.Tier() > 0 {
		ns, nv = 4, 2
	}
	ls := vx.Choose("ls", ns+1)
	lv := vx.Choose("lv", nv+1)
	s := vx.String("s", ls)
	v := vx.String("v", lv)
	for i := 0; i < ls; i++ {
		vx.Assume(s[i] < 0x80)
	}
	for i := 0; i < lv; i++ {
		vx.Assume(v[i] < 0x80)
	}
	fold := vx.Bool("i")
	ops := []string{"=", "~=", "|=", "^=", "$=", "*=", "!="}
	op := ops[vx.Choose("op", len(ops))]
	n := &html.Node{Type: html.ElementNode, Data: "p", Attr: []html.Attribute{{Key: "k", Val: s}}}
	got := attrSelector{key: "k", val: v, operation: op, ignoreCase: fold}.Match(n)
	vx.Reach("op:" + op)
	if op == "^=" || op == "$=" || op == "*=" {
		// The project's own tests pin that a blank attribute value (only characters
		// removed by strings.TrimSpace) never matches these operators; no claim there.
		blank := true
		for i := 0; i < ls; i++ {
			blank = vx.And(blank, vx.Or(vxIsSpace(s[i]), s[i] == '\v'))
		}
		if blank {
			vx.Reach("blank-attribute-unspecified")
			return
		}
	}
	var want bool
	switch op {
	case "=":
		want = ls == lv && vxAt(s, v, 0, fold)
	case "!=":
		want = !(ls == lv && vxAt(s, v, 0, fold))
	case "^=":
		want = lv > 0 && vxAt(s, v, 0, fold)
	case "$=":
		want = lv > 0 && vxAt(s, v, ls-lv, fold)
	case "*=":
		if lv > 0 {
			for i := 0; i+lv <= ls; i++ {
				want = vx.Or(want, vxAt(s, v, i, fold))
			}
		}
	case "|=":
		want = ls == lv && vxAt(s, v, 0, fold)
		if ls > lv {
			want = vx.Or(want, vx.And(vxAt(s, v, 0, fold), s[lv] == '-'))
		}
	case "~=":
		// v is non-empty, has no white space, and equals one of the white-space separated words of s
		if lv > 0 {
			noSpace := true
			for j := 0; j < lv; j++ {
				noSpace = vx.And(noSpace, !vxIsSpace(v[j]))
			}
			for i := 0; i+lv <= ls; i++ {
				startOK := i == 0
				if i > 0 {
					startOK = vxIsSpace(s[i-1])
				}
				endOK := i+lv == ls
				if i+lv < ls {
					endOK = vxIsSpace(s[i+lv])
				}
				want = vx.Or(want, vx.And(vx.And(startOK, endOK), vxAt(s, v, i, fold)))
			}
			want = vx.And(want, noSpace)
		}
	}
	vx.Assert("attr-operator", got == want)
}

// :empty as in Selectors 4: no element children, text only white space; comments ignored.
func VxH_C05_empty() {
	k := vx.Choose("k", 3)
	n := &html.Node{Type: html.ElementNode, Data: "p"}
	want := true
	for i := 0; i < k; i++ {
		id := string(rune('0' + i))
		c := &html.Node{}
		switch vx.Choose("type"+id, 3) {
		case 0:
			c.Type = html.ElementNode
			c.Data = "a"
			want = false
		case 1:
			c.Type = html.TextNode
			txt := vx.String("text"+id, vx.Choose("len"+id, 3))
			c.Data = txt
			for j := 0; j < len(txt); j++ {
				vx.Assume(txt[j] < 0x80)
				want = vx.And(want, vxIsSpace(txt[j]))
			}
		default:
			c.Type = html.CommentNode
			c.Data = "x"
		}
		n.AppendChild(c)
	}
	got := emptyElementPseudoClassSelector{}.Match(n)
	vx.Reach("done")
	vx.Assert("empty-selectors4", got == want)
}
