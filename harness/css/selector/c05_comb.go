//go:build verif

package selector

import (
	"github.com/benoitkugler/webrender/vx"
	"golang.org/x/net/html"
)

// vxStub is a leaf selector with symbolic specificity.
type vxStub struct {
	spec Specificity
	tag  string
	pe   string
}

func (s vxStub) Match(n *html.Node) bool  { return n.Type == html.ElementNode && n.Data == s.tag }
func (s vxStub) Specificity() Specificity { return s.spec }
func (s vxStub) String() string           { return s.tag }
func (s vxStub) PseudoElement() string    { return s.pe }

func vxSpec(id string) Specificity {
	return Specificity{vx.Int(id+"a", 0, 9), vx.Int(id+"b", 0, 9), vx.Int(id+"c", 0, 9)}
}

func vxLexLess(x, y Specificity) bool {
	return vx.Or(x[0] < y[0], vx.And(x[0] == y[0], vx.Or(x[1] < y[1], vx.And(x[1] == y[1], x[2] < y[2]))))
}

// Specificity: Less is the strict lexicographic order; compound and combined add
// (plus one type for a pseudo-element); :is/:not/:has take their most specific argument.
func VxH_C05_spec() {
	x, y, z := vxSpec("x"), vxSpec("y"), vxSpec("z")
	vx.Assert("less-is-lexicographic", x.Less(y) == vxLexLess(x, y))
	sx, sy, sz := vxStub{spec: x, tag: "a"}, vxStub{spec: y, tag: "b"}, vxStub{spec: z, tag: "a"}
	sum := compoundSelector{selectors: []Sel{sx, sy}}.Specificity()
	vx.Assert("compound-adds", sum[0] == x[0]+y[0] && sum[1] == x[1]+y[1] && sum[2] == x[2]+y[2])
	pe := compoundSelector{selectors: []Sel{sx}, pseudoElement: "before"}.Specificity()
	vx.Assert("pseudo-element-counts-as-type", pe[0] == x[0] && pe[1] == x[1] && pe[2] == x[2]+1)
	cb := combinedSelector{first: sx, second: sy, combinator: '>'}.Specificity()
	vx.Assert("combined-adds", cb[0] == x[0]+y[0] && cb[1] == x[1]+y[1] && cb[2] == x[2]+y[2])
	name := []string{"is", "not", "has", "haschild"}[vx.Choose("name", 4)]
	got := relativePseudoClassSelector{name: name, match: SelectorGroup{sx, sy, sz}}.Specificity()
	// the result is one of the arguments and no argument is more specific
	isArg := vx.Or(vx.Or(got == x, got == y), got == z)
	vx.Assert("relative-is-an-argument", isArg)
	vx.Assert("relative-is-most-specific", vx.And(vx.And(!vxLexLess(got, x), !vxLexLess(got, y)), !vxLexLess(got, z)))
	vx.Assert("class-specificity", classSelector{}.Specificity() == Specificity{0, 1, 0})
	vx.Assert("id-specificity", idSelector{}.Specificity() == Specificity{1, 0, 0})
	vx.Assert("attr-specificity", attrSelector{}.Specificity() == Specificity{0, 1, 0})
	vx.Assert("tag-specificity", tagSelector{}.Specificity() == Specificity{0, 0, 1})
	vx.Assert("pseudo-class-specificity", nthPseudoClassSelector{}.Specificity() == Specificity{0, 1, 0})
	vx.Reach("done")
}

// fixed-shape tree: root(r) > c0, c1, c2 ; c1 > g.  Node kinds and tags symbolic.
func vxTree() (root *html.Node, nodes []*html.Node) {
	tags := []string{"a", "b"}
	mk := func(id string, elemOnly bool) *html.Node {
		n := &html.Node{}
		k := 0
		if !elemOnly {
			k = vx.Choose("type"+id, 3)
		}
		switch k {
		case 0:
			n.Type = html.ElementNode
			n.Data = tags[vx.Choose("tag"+id, 2)]
		case 1:
			n.Type = html.TextNode
			n.Data = "x"
		default:
			n.Type = html.CommentNode
			n.Data = "x"
		}
		return n
	}
	root = mk("r", true)
	c0, c1, c2 := mk("0", false), mk("1", true), mk("2", false)
	g := mk("g", false)
	root.AppendChild(c0)
	root.AppendChild(c1)
	root.AppendChild(c2)
	c1.AppendChild(g)
	return root, []*html.Node{root, c0, c1, c2, g}
}

func vxIsTag(n *html.Node, tag string) bool { return n.Type == html.ElementNode && n.Data == tag }

// combinators and :is/:not/:has against a reference evaluator.
func VxH_C05_comb() {
	_, nodes := vxTree()
	tags := []string{"a", "b"}
	ta, tb := tags[vx.Choose("sel1", 2)], tags[vx.Choose("sel2", 2)]
	s1, s2 := vxStub{tag: ta}, vxStub{tag: tb}
	t := vx.Choose("target", len(nodes))
	n := nodes[t]
	kind := vx.Choose("kind", 8)
	var got, want bool
	switch kind {
	case 0: // descendant
		got = combinedSelector{first: s1, second: s2, combinator: ' '}.Match(n)
		want = false
		if vxIsTag(n, tb) {
			for p := n.Parent; p != nil; p = p.Parent {
				if vxIsTag(p, ta) {
					want = true
				}
			}
		}
	case 1: // child
		got = combinedSelector{first: s1, second: s2, combinator: '>'}.Match(n)
		want = vxIsTag(n, tb) && n.Parent != nil && vxIsTag(n.Parent, ta)
	case 2: // adjacent sibling: the previous *element* sibling
		got = combinedSelector{first: s1, second: s2, combinator: '+'}.Match(n)
		want = false
		if vxIsTag(n, tb) {
			for p := n.PrevSibling; p != nil; p = p.PrevSibling {
				if p.Type == html.ElementNode {
					want = vxIsTag(p, ta)
					break
				}
			}
		}
	case 3: // general sibling
		got = combinedSelector{first: s1, second: s2, combinator: '~'}.Match(n)
		want = false
		if vxIsTag(n, tb) {
			for p := n.PrevSibling; p != nil; p = p.PrevSibling {
				if vxIsTag(p, ta) {
					want = true
				}
			}
		}
	case 4: // :is(list)
		got = relativePseudoClassSelector{name: "is", match: SelectorGroup{s1, s2}}.Match(n)
		want = vxIsTag(n, ta) || vxIsTag(n, tb)
	case 5: // :not(list)
		got = relativePseudoClassSelector{name: "not", match: SelectorGroup{s1, s2}}.Match(n)
		want = n.Type == html.ElementNode && !(vxIsTag(n, ta) || vxIsTag(n, tb))
	case 6: // :has(descendant)
		got = relativePseudoClassSelector{name: "has", match: SelectorGroup{s1}}.Match(n)
		want = false
		if n.Type == html.ElementNode {
			var walk func(m *html.Node)
			walk = func(m *html.Node) {
				for c := m.FirstChild; c != nil; c = c.NextSibling {
					if vxIsTag(c, ta) {
						want = true
					}
					walk(c)
				}
			}
			walk(n)
		}
	default: // compound of two leaves, and a selector list
		got = compoundSelector{selectors: []Sel{s1, s2}}.Match(n)
		want = vxIsTag(n, ta) && vxIsTag(n, tb)
		g2 := SelectorGroup{s1, s2}.Match(n)
		vx.Assert("selector-list-is-union", g2 == (vxIsTag(n, ta) || vxIsTag(n, tb)))
	}
	vx.Reach("done")
	vx.Assert("combinator-semantics", got == want)
}
