//go:build verif

package validation

import (
	pa "github.com/benoitkugler/webrender/css/parser"
	pr "github.com/benoitkugler/webrender/css/properties"
	"github.com/benoitkugler/webrender/vx"
)

// nested rules are flattened in source order: with equal specificity the last
// declaration of the block, nested or not, is the last one of the flattened list.
func VxH_C03_nesting() {
	k := vx.Choose("k", 3) + 1
	text := ""
	last := 0
	for i := 0; i < k; i++ {
		id := string(rune('0' + i))
		val := string(rune('1' + i))
		switch vx.Choose("item"+id, 3) {
		case 0:
			text += "orphans:" + val + ";"
		case 1:
			text += "&{orphans:" + val + "}"
		default:
			text += "& b{widows:" + val + "}" // unrelated property on another selector
			continue
		}
		last = i + 1
	}
	prelude := pa.Tokenize([]byte("p"), true)
	groups, err := PreprocessDeclarationsPrelude("", pa.ParseBlocksContentsString(text), prelude)
	vx.Reach("flattened")
	vx.Assert("no-error", err == nil)
	got := 0
	for _, g := range groups {
		for _, d := range g.Declarations {
			if d.Name.KnownProp == pr.POrphans {
				got = int(d.Value.(pr.Int))
			}
		}
	}
	vx.Assert("source-order-preserved", got == last)
}
