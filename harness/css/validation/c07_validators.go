//go:build verif

package validation

import (
	pa "github.com/benoitkugler/webrender/css/parser"
	pr "github.com/benoitkugler/webrender/css/properties"
	"github.com/benoitkugler/webrender/vx"
)

// vxAnyTok yields one value token of symbolic kind with small contents.
func vxAnyTok(id string) pa.Token {
	idents := []string{"auto", "none", "a", "x", "format", "inherit"}
	switch vx.Choose(id, 12) {
	case 0:
		return pa.NewIdent(idents[vx.Choose(id+".ident", len(idents))], pa.Pos{})
	case 1:
		n := pa.NewNumber(1, pa.Pos{})
		n.ValueF = pr.Fl(vx.Choose(id+".num", 4) - 1)
		return n
	case 2:
		return pa.NewDimension(pa.NewNumber(pr.Fl(vx.Choose(id+".dim", 3)-1), pa.Pos{}), []string{"px", "em", "deg", "zz", "%"}[vx.Choose(id+".unit", 5)])
	case 3:
		return pa.VxPercentage(pr.Fl(vx.Choose(id+".perc", 3) - 1))
	case 4:
		return pa.String{}
	case 5:
		return pa.NewLiteral([]string{",", "/", "+", "-"}[vx.Choose(id+".lit", 4)], pa.Pos{})
	case 6:
		return pa.NewFunctionBlock(pa.Pos{}, []string{"url", "format", "var", "attr", "counter", "symbols", "local", "rgb", "zz"}[vx.Choose(id+".fn", 9)], nil)
	case 7:
		return pa.NewFunctionBlock(pa.Pos{}, []string{"url", "format", "attr", "counter", "symbols", "local", "rgb", "linear-gradient"}[vx.Choose(id+".fn1", 8)], []pa.Token{pa.String{}})
	case 8:
		return pa.Hash{}
	case 9:
		return pa.URL{}
	case 10:
		return pa.ParenthesesBlock{}
	default:
		return pa.SquareBracketsBlock{}
	}
}

func vxValue(id string, max int) []pa.Token {
	n := vx.Choose(id+".n", max+1)
	var out []pa.Token
	for i := 0; i < n; i++ {
		out = append(out, vxAnyTok(id+string(rune('0'+i))))
	}
	return out
}

// no validator, expander or descriptor parser panics, whatever tokens it is given.
func VxH_C07_validators() {
	value := vxValue("v", 1+vx.Tier())
	var names []string
	for _, d := range vxCasePool {
		for i := 0; i < len(d); i++ {
			if d[i] == ':' {
				names = append(names, d[:i])
				break
			}
		}
	}
	names = append(names, "grid-template-areas", "grid-area", "grid-row", "font-variant-ligatures", "string-set", "counter-reset", "counter-increment",
		"bookmark-label", "content", "quotes", "src", "will-change", "zz-unknown", "-weasy-link", "text-decoration-line", "outline-offset")
	name := names[vx.Choose("property", len(names))]
	PreprocessDeclarations("", []pa.Compound{pa.Declaration{Name: name, Value: value}})
	vx.Reach("validated")
}

func VxH_C07_descriptors() {
	value := vxValue("v", 2)
	ff := []string{"font-family", "src", "font-style", "font-weight", "font-stretch", "font-feature-settings", "font-variant", "unicode-range", "zz"}
	cs := []string{"system", "negative", "prefix", "suffix", "range", "pad", "fallback", "symbols", "additive-symbols", "speak-as", "zz"}
	if vx.Bool("counter-style") {
		name := cs[vx.Choose("descriptor", len(cs))]
		PreprocessCounterStyleDescriptors("", []pa.Compound{pa.Declaration{Name: name, Value: value}})
		vx.Reach("counter-style")
	} else {
		name := ff[vx.Choose("descriptor", len(ff))]
		PreprocessFontFaceDescriptors("", []pa.Compound{pa.Declaration{Name: name, Value: value}})
		vx.Reach("font-face")
	}
}

// the font shorthand, on every value of up to 3 (thorough 4) tokens from its own vocabulary:
// no panic, and an accepted value sets font-size and font-family.
func VxH_C07_font() {
	n := vx.Choose("n", 4+vx.Tier())
	idents := []string{"normal", "bold", "italic", "small-caps", "condensed", "serif", "caption", "x"}
	var value []pa.Token
	for i := 0; i < n; i++ {
		id := "t" + string(rune('0'+i))
		var t pa.Token
		switch k := vx.Choose(id, len(idents)+6); {
		case k < len(idents):
			t = pa.NewIdent(idents[k], pa.Pos{})
		case k == len(idents):
			t = pa.NewDimension(pa.NewNumber(12, pa.Pos{}), "px")
		case k == len(idents)+1:
			t = pa.VxPercentage(50)
		case k == len(idents)+2:
			t = pa.NewNumber(2, pa.Pos{})
		case k == len(idents)+3:
			t = pa.NewLiteral("/", pa.Pos{})
		case k == len(idents)+4:
			t = pa.NewLiteral(",", pa.Pos{})
		default:
			t = pa.String{}
		}
		value = append(value, t)
	}
	out := PreprocessDeclarations("", []pa.Compound{pa.Declaration{Name: "font", Value: value}})
	vx.Reach("validated")
	if len(out) > 0 {
		vx.Reach("accepted")
		size, family := false, false
		for _, d := range out {
			if d.Name.KnownProp == pr.PFontSize {
				size = true
			}
			if d.Name.KnownProp == pr.PFontFamily {
				family = true
			}
		}
		vx.Assert("accepted-font-sets-size-and-family", size && family)
	}
}

// gradient functions: any first argument of 0..4 component values followed by two
// colour stops is either understood or rejected, never a panic.
func VxH_C07_gradients() {
	fn := []string{"linear-gradient", "repeating-linear-gradient", "radial-gradient", "repeating-radial-gradient"}[vx.Choose("fn", 4)]
	n := vx.Choose("n", 5)
	idents := []string{"to", "top", "circle", "at"}
	if vx.Tier() > 0 {
		idents = []string{"to", "top", "left", "bottom", "red", "circle", "at", "closest-side", "center"}
	}
	ws := pa.NewWhitespace(" ", pa.Pos{})
	var args []pa.Token
	for i := 0; i < n; i++ {
		id := "a" + string(rune('0'+i))
		var t pa.Token
		nk := len(idents) + 2 + 2*vx.Tier()
		switch k := vx.Choose(id, nk); {
		case k < len(idents):
			t = pa.NewIdent(idents[k], pa.Pos{})
		case k == len(idents):
			t = pa.NewDimension(pa.NewNumber(45, pa.Pos{}), "deg")
		case k == len(idents)+1:
			t = pa.NewDimension(pa.NewNumber(1, pa.Pos{}), "px")
		case k == len(idents)+2:
			t = pa.VxPercentage(10)
		default:
			t = pa.NewNumber(0, pa.Pos{})
		}
		if i > 0 {
			args = append(args, ws)
		}
		args = append(args, t)
	}
	comma := pa.NewLiteral(",", pa.Pos{})
	if n > 0 {
		args = append(args, comma, ws)
	}
	args = append(args, pa.NewIdent("red", pa.Pos{}), comma, ws, pa.NewIdent("blue", pa.Pos{}))
	value := []pa.Token{pa.NewFunctionBlock(pa.Pos{}, fn, args)}
	prop := []string{"background-image", "background", "list-style-image", "border-image-source"}[vx.Choose("property", 2+2*vx.Tier())]
	out := PreprocessDeclarations("", []pa.Compound{pa.Declaration{Name: prop, Value: value}})
	vx.Reach("validated")
	if len(out) > 0 {
		vx.Reach("accepted")
	}
}
