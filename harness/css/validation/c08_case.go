//go:build verif

package validation

import (
	pa "github.com/benoitkugler/webrender/css/parser"
	"github.com/benoitkugler/webrender/vx"
)

var vxCasePool = []string{
	"width: 10px", "height: 2em", "margin: 1px 2em 3% auto", "padding: 1cm 2mm", "top: -3pt", "font-size: 12pt",
	"line-height: 1.5em", "line-height: normal", "color: red", "background-color: transparent", "display: block",
	"display: inline-block", "display: list-item", "float: left", "position: absolute", "overflow: hidden",
	"text-align: center", "vertical-align: middle", "white-space: pre-wrap", "font-weight: bold", "font-style: italic",
	"transform: rotate(90deg)", "transform: translate(1px, 2em)", "transform: scale(2)", "image-resolution: 300dpi",
	"border: 1px solid black", "border-top-width: thin", "border-radius: 1px 2px", "background-position: left top",
	"content: counter(x, upper-roman)", "size: a4 landscape", "break-before: page", "box-sizing: border-box",
	"z-index: auto", "column-width: 10em", "letter-spacing: 2px", "text-indent: 5ex", "word-spacing: 1rem",
	"border-spacing: 1px 2px", "list-style: square inside", "visibility: collapse", "text-decoration: underline",
	"hyphens: auto", "flex: 1 1 10px", "align-items: center", "opacity: 0.5", "margin-left: 1q",
	"background-image: repeating-linear-gradient(red, blue 10px)", "background-image: radial-gradient(circle, red, blue)",
	"background-image: linear-gradient(to right, red, blue)", "background-image: repeating-radial-gradient(red, blue 5px)",
	"background: red no-repeat", "font-family: serif", "font: bold 12px/1.5 serif", "quotes: none", "bookmark-level: none",
	"orphans: 3", "page: auto", "text-transform: uppercase", "clip: rect(1px, 2px, 3px, 4px)", "object-fit: cover",
	"text-overflow: ellipsis", "grid-template-columns: 1fr 2fr", "justify-content: space-between", "font-variant: small-caps",
	"font-stretch: condensed", "border-collapse: collapse", "caption-side: bottom", "table-layout: fixed", "empty-cells: hide",
	"direction: rtl", "outline: 1px dotted red", "min-width: 1in", "max-height: none", "tab-size: 4",
	"image-rendering: pixelated", "image-orientation: 90deg", "transform-origin: left top", "background-size: cover",
	"background-repeat: repeat-x", "background-clip: padding-box", "border-style: dashed dotted", "border-color: red blue",
	"color: rgb(1, 2, 3)", "color: hsl(10, 50%, 50%)", "transform: skewX(10grad)", "transform: matrix(1, 0, 0, 1, 0, 0)",
	"transform: translateY(5%)", "column-count: auto", "columns: 2 10em", "break-inside: avoid-page", "float: footnote",
	"footnote-policy: line", "overflow-wrap: anywhere", "word-break: break-all", "text-align-last: justify",
	"font-kerning: none", "font-feature-settings: normal", "lang: none", "link: none", "anchor: none", "appearance: auto",
	"block-ellipsis: auto", "continue: discard", "max-lines: none", "box-decoration-break: clone", "margin-break: keep",
	// function names
	"background-image: url(\"http://a.test/x\")", "content: attr(x)", "content: string(x)", "content: element(x)", "content: leader(dotted)",
	"content: target-counter(attr(x), x)", "position: running(x)", "list-style-type: symbols(cyclic \"a\" \"b\")",
	"string-set: x attr(x)", "content: counters(x, \".\")", "bookmark-label: content(text)",
}

func vxFlip(s string, id string) string {
	b := []byte(s)
	for i := range b {
		c := b[i]
		if ('a' <= c && c <= 'z') || ('A' <= c && c <= 'Z') {
			b[i] = vx.IteByte(vx.Bool(id+"."+string(rune('a'+i%26))+string(rune('0'+i/26))), c^0x20, c)
		}
	}
	return string(b)
}

// vxRecase re-spells identifiers, units and function names with symbolic letter case.
func vxRecase(toks []pa.Token, id string) []pa.Token {
	var out []pa.Token
	for i, t := range toks {
		tid := id + string(rune('A'+i))
		switch t := t.(type) {
		case pa.Ident:
			// counter names and counter-style names are custom identifiers (case-sensitive), not keywords
			if t.Value != "x" && t.Value != "square" && t.Value != "upper-roman" && t.Value != "serif" { // family names keep their spelling
				t.Value = vxFlip(t.Value, tid)
			}
			out = append(out, t)
		case pa.Dimension:
			t.Unit = vxFlip(t.Unit, tid)
			out = append(out, t)
		case pa.FunctionBlock:
			t.Name = vxFlip(t.Name, tid)
			t.Arguments = vxRecase(t.Arguments, tid+"_")
			out = append(out, t)
		default:
			out = append(out, t)
		}
	}
	return out
}

// property names, keywords, units and function names are ASCII case-insensitive.
func VxH_C08_case() {
	k := vx.Choose("decl", len(vxCasePool))
	comps := pa.ParseBlocksContentsString(vxCasePool[k])
	d := comps[0].(pa.Declaration)
	ref := PreprocessDeclarations("", []pa.Compound{d})
	vx.Assert("reference-spelling-is-valid", len(ref) > 0)
	d2 := d
	d2.Name = vxFlip(d.Name, "name")
	d2.Value = vxRecase(d.Value, "v")
	got := PreprocessDeclarations("", []pa.Compound{d2})
	vx.Reach("validated")
	vx.Assert("case-insensitive", vx.DeepEqual(got, ref))
}
