//go:build verif

package validation

import (
	pa "github.com/benoitkugler/webrender/css/parser"
	pr "github.com/benoitkugler/webrender/css/properties"
	"github.com/benoitkugler/webrender/vx"
)

// vxSpace inserts a comment or extra white space at gap number *at (counting every gap
// between tokens, function arguments included), or at every gap when all is set.
func vxSpace(toks []pa.Token, at *int, kind int, all bool) []pa.Token {
	var out []pa.Token
	gap := func() {
		if all || *at == 0 {
			if kind == 0 {
				out = append(out, pa.Comment{})
			} else {
				out = append(out, pa.NewWhitespace(" \n", pa.Pos{}))
			}
		}
		*at--
	}
	for _, t := range toks {
		gap()
		if f, ok := t.(pa.FunctionBlock); ok && len(f.Arguments) > 0 {
			f.Arguments = vxSpace(f.Arguments, at, kind, all)
			t = f
		}
		out = append(out, t)
	}
	gap()
	return out
}

func vxGaps(toks []pa.Token) int {
	n := len(toks) + 1
	for _, t := range toks {
		if f, ok := t.(pa.FunctionBlock); ok && len(f.Arguments) > 0 {
			n += vxGaps(f.Arguments)
		}
	}
	return n
}

// comments and extra white space between component values change nothing.
func VxH_C08_whitespace() {
	k := vx.Choose("decl", len(vxCasePool))
	d := pa.ParseBlocksContentsString(vxCasePool[k])[0].(pa.Declaration)
	ref := PreprocessDeclarations("", []pa.Compound{d})
	// only between top-level tokens that are already separated by white space, and inside functions
	var toks []pa.Token
	for _, t := range d.Value {
		if t.Kind() != pa.KWhitespace {
			toks = append(toks, t)
		}
	}
	d2 := d
	d2.Value = nil
	for i, t := range toks {
		if i > 0 {
			d2.Value = append(d2.Value, pa.NewWhitespace(" ", pa.Pos{}))
		}
		d2.Value = append(d2.Value, t)
	}
	// "12px/1.5" style values have adjacent tokens without white space: keep those declarations as they are
	if len(pa.RemoveWhitespace(d.Value)) != len(toks) || vxCasePool[k] == "font: bold 12px/1.5 serif" {
		return
	}
	at := vx.Choose("gap", vxGaps(d2.Value)+1)
	all := at == vxGaps(d2.Value)
	d2.Value = vxSpace(d2.Value, &at, vx.Choose("kind", 2), all)
	got := PreprocessDeclarations("", []pa.Compound{d2})
	vx.Reach("validated")
	vx.Assert("whitespace-and-comments-irrelevant", vx.DeepEqual(got, ref))
}

// vxJunk yields an arbitrary single token.
func vxJunk(id string) pa.Token {
	switch vx.Choose(id, 7) {
	case 0:
		return pa.NewIdent("zz", pa.Pos{})
	case 1:
		return pa.NewNumber(pr.Fl(vx.Choose(id+".n", 3)-1), pa.Pos{})
	case 2:
		return pa.String{}
	case 3:
		return pa.NewLiteral(",", pa.Pos{})
	case 4:
		return pa.NewFunctionBlock(pa.Pos{}, "zz", nil)
	case 5:
		return pa.NewDimension(pa.NewNumber(1, pa.Pos{}), "zz")
	default:
		return pa.NewLiteral("/", pa.Pos{})
	}
}

// an unknown property or an invalid value drops that declaration only.
func VxH_C08_isolation() {
	d1 := pa.ParseBlocksContentsString("orphans: 3")[0]
	d2 := pa.ParseBlocksContentsString("widows: 4")[0]
	k := vx.Choose("decl", len(vxCasePool))
	x := pa.ParseBlocksContentsString(vxCasePool[k])[0].(pa.Declaration)
	switch vx.Choose("damage", 4) {
	case 0: // unknown property
		x.Name = "zz-" + x.Name
	case 1: // a value token replaced by junk
		vals := pa.RemoveWhitespace(x.Value)
		i := vx.Choose("where", len(vals))
		vals = append([]pa.Token(nil), vals...)
		vals[i] = vxJunk("junk")
		x.Value = vals
	case 2: // junk appended
		x.Value = append(append([]pa.Token(nil), x.Value...), pa.NewWhitespace(" ", pa.Pos{}), vxJunk("junk"))
	default: // empty value
		x.Value = nil
	}
	all := PreprocessDeclarations("", []pa.Compound{d1, x, d2})
	a := PreprocessDeclarations("", []pa.Compound{d1})
	mid := PreprocessDeclarations("", []pa.Compound{x})
	b := PreprocessDeclarations("", []pa.Compound{d2})
	vx.Reach("validated")
	vx.Assert("neighbours-unaffected", vx.DeepEqual(all, append(append(append([]Declaration{}, a...), mid...), b...)))
	vx.Assert("neighbours-valid", len(a) == 1 && len(b) == 1)
}

func vxPx(id string) (pa.Token, pr.Float) {
	v := vx.F32(id)
	n := pa.NewNumber(pr.Fl(1), pa.Pos{})
	n.ValueF = pr.Fl(v)
	return pa.NewDimension(n, "px"), pr.Float(v)
}

// four-sides shorthands: 1 to 4 values map to top, right, bottom, left as CSS defines.
func VxH_C08_sides() {
	prop := []string{"margin", "padding", "border-width"}[vx.Choose("prop", 3)]
	n := vx.Choose("n", 4) + 1
	var toks []pa.Token
	var vals []pr.Float
	for i := 0; i < n; i++ {
		t, v := vxPx("v" + string(rune('0'+i)))
		if prop != "margin" {
			vx.Assume(v >= 0)
		}
		if i > 0 {
			toks = append(toks, pa.NewWhitespace(" ", pa.Pos{}))
		}
		toks = append(toks, t)
		vals = append(vals, v)
	}
	out := PreprocessDeclarations("", []pa.Compound{pa.Declaration{Name: prop, Value: toks}})
	vx.Reach("expanded")
	vx.Assert("four-longhands", len(out) == 4)
	top, right, bottom, left := vals[0], vals[0], vals[0], vals[0]
	if n >= 2 {
		right, left = vals[1], vals[1]
	}
	if n >= 3 {
		bottom = vals[2]
	}
	if n == 4 {
		left = vals[3]
	}
	want := map[string]pr.Float{"top": top, "right": right, "bottom": bottom, "left": left}
	for _, d := range out {
		name := d.Name.KnownProp.String()
		var got pr.Float
		switch v := d.Value.(type) {
		case pr.DimOrS:
			got = v.Value
		default:
			vx.Assert("longhand-is-a-length", false)
		}
		for side, w := range want {
			if name == prop+"-"+side || name == "border-"+side+"-width" {
				vx.Assert("side-"+side, vx.RealEq(float64(got), float64(w)))
			}
		}
	}
}

// "!important" with comments and white space anywhere around and inside it: the declaration is
// the same as with a plain " !important", and differs from the non-important one only by
// its flag.
func VxH_C08_important_comments() {
	seps := []string{"", " ", "/**/", " /* c */ ", "\n/**/\t"}
	s1 := seps[vx.Choose("before-bang", len(seps))]
	s2 := seps[vx.Choose("after-bang", len(seps))]
	s3 := seps[vx.Choose("after-important", len(seps))]
	word := []string{"important", "IMPORTANT", "Important"}[vx.Choose("spelling", 3)]
	decl := []string{"color: red", "margin: 1px 2px", "width: 10px"}[vx.Choose("decl", 3)]
	src := decl + s1 + "!" + s2 + word + s3
	got := PreprocessDeclarations("", pa.ParseBlocksContentsString(src))
	ref := PreprocessDeclarations("", pa.ParseBlocksContentsString(decl+" !important"))
	plain := PreprocessDeclarations("", pa.ParseBlocksContentsString(decl))
	vx.Reach("validated")
	vx.Assert("reference-is-important", len(ref) > 0 && len(ref) == len(plain) && ref[0].Important && !plain[0].Important)
	vx.Assert("comments-and-space-around-important-irrelevant", vx.DeepEqual(got, ref))
}
