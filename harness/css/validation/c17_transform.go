//go:build verif

package validation

import (
	pa "github.com/benoitkugler/webrender/css/parser"
	pr "github.com/benoitkugler/webrender/css/properties"
	"github.com/benoitkugler/webrender/vx"
)

func vxDim(v pr.Fl, unit string) pa.Token {
	if unit == "%" {
		return pa.VxPercentage(v)
	}
	n := pa.NewNumber(1, pa.Pos{})
	n.ValueF = v
	return pa.NewDimension(n, unit)
}

func vxNum(v pr.Fl) pa.Token {
	n := pa.NewNumber(1, pa.Pos{})
	n.ValueF = v
	return n
}

// every transform function, with any argument value (negative and zero included), is
// accepted and normalised to the matrix parameters CSS Transforms defines.
func VxH_C17_validate() {
	v := pr.Fl(vx.F32("v"))
	w := pr.Fl(vx.F32("w"))
	vx.Assume(vx.And(vx.And(v >= -1000, v <= 1000), vx.And(w >= -1000, w <= 1000)))
	comma := pa.NewLiteral(",", pa.Pos{})
	eq := func(d pr.Dimension, want float64) bool { return vx.ApproxEq(float64(d.Value), want) }
	fn := func(name string, args ...pa.Token) (pr.SDimensions, error) {
		return transformFunction(pa.NewFunctionBlock(pa.Pos{}, name, args))
	}
	const pi = 3.141592653589793
	switch vx.Choose("function", 12) {
	case 11:
		// skew( <angle> [, <angle>]? ) — CSS Transforms 1, 7.1
		two := vx.Choose("skew-arguments", 2) == 1
		var out pr.SDimensions
		var err error
		if two {
			out, err = fn("skew", vxDim(v, "deg"), comma, vxDim(w, "rad"))
		} else {
			out, err = fn("skew", vxDim(v, "deg"))
		}
		vx.Reach("skew")
		vx.Assert("skew-accepted", err == nil && out.String == "skew" && len(out.Dimensions) == 2)
		if err == nil && len(out.Dimensions) == 2 {
			vx.Assert("skew-x-angle", eq(out.Dimensions[0], float64(v)*pi/180))
			if two {
				vx.Assert("skew-y-angle", eq(out.Dimensions[1], float64(w)))
			} else {
				vx.Assert("skew-y-angle", eq(out.Dimensions[1], 0))
			}
		}
	case 0, 1, 2:
		units := []string{"deg", "grad", "rad", "turn"}
		factor := []float64{pi / 180, pi / 200, 1, 2 * pi}
		u := vx.Choose("unit", 4)
		names := []string{"rotate", "skewX", "skewY"}
		k := vx.Choose("angle-function", 3)
		out, err := fn(names[k], vxDim(v, units[u]))
		vx.Reach("angle")
		vx.Assert("angle-function-accepted", err == nil)
		rad := float64(v) * factor[u]
		switch k {
		case 0:
			vx.Assert("rotate", out.String == "rotate" && len(out.Dimensions) == 1 && eq(out.Dimensions[0], rad))
		case 1:
			vx.Assert("skewX", out.String == "skew" && len(out.Dimensions) == 2 && eq(out.Dimensions[0], rad) && eq(out.Dimensions[1], 0))
		default:
			vx.Assert("skewY", out.String == "skew" && len(out.Dimensions) == 2 && eq(out.Dimensions[0], 0) && eq(out.Dimensions[1], rad))
		}
	case 3, 4, 5:
		unit := []string{"px", "%"}[vx.Choose("length-unit", 2)]
		names := []string{"translate", "translateX", "translateY"}
		k := vx.Choose("translate-function", 3)
		out, err := fn(names[k], vxDim(v, unit))
		vx.Reach("translate-1")
		vx.Assert("translate-accepted", err == nil)
		vx.Assert("translate-name", out.String == "translate" && len(out.Dimensions) == 2)
		x, y := out.Dimensions[0], out.Dimensions[1]
		if k == 2 {
			vx.Assert("translateY", eq(y, float64(v)) && eq(x, 0))
		} else {
			vx.Assert("translateX", eq(x, float64(v)) && eq(y, 0))
		}
	case 6:
		out, err := fn("translate", vxDim(v, "px"), comma, vxDim(w, "%"))
		vx.Reach("translate-2")
		vx.Assert("translate-2-accepted", err == nil && out.String == "translate" && len(out.Dimensions) == 2)
		vx.Assert("translate-2-values", eq(out.Dimensions[0], float64(v)) && eq(out.Dimensions[1], float64(w)) && out.Dimensions[1].Unit == pr.Perc)
	case 7, 8:
		names := []string{"scale", "scaleX", "scaleY"}
		k := vx.Choose("scale-function", 3)
		out, err := fn(names[k], vxNum(v))
		vx.Reach("scale-1")
		vx.Assert("scale-accepted", err == nil && out.String == "scale" && len(out.Dimensions) == 2)
		sx, sy := float64(v), float64(v)
		if k == 1 {
			sy = 1
		} else if k == 2 {
			sx = 1
		}
		vx.Assert("scale-values", eq(out.Dimensions[0], sx) && eq(out.Dimensions[1], sy))
	case 9:
		out, err := fn("scale", vxNum(v), comma, vxNum(w))
		vx.Reach("scale-2")
		vx.Assert("scale-2", err == nil && out.String == "scale" && eq(out.Dimensions[0], float64(v)) && eq(out.Dimensions[1], float64(w)))
	default:
		out, err := fn("matrix", vxNum(v), comma, vxNum(w), comma, vxNum(v), comma, vxNum(w), comma, vxNum(1), comma, vxNum(2))
		vx.Reach("matrix")
		vx.Assert("matrix", err == nil && out.String == "matrix" && len(out.Dimensions) == 6 && eq(out.Dimensions[0], float64(v)) && eq(out.Dimensions[3], float64(w)) && eq(out.Dimensions[5], 2))
	}
}
