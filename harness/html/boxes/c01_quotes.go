//go:build verif

package boxes

import (
	"github.com/benoitkugler/webrender/html/tree"
	"github.com/benoitkugler/webrender/utils"
	"github.com/benoitkugler/webrender/vx"
)

func vxPseudoText(b Box, tag string) (string, bool) {
	if f := b.Box(); f.ElementTag() == tag {
		out := ""
		var walk func(Box)
		walk = func(x Box) {
			if t, ok := x.(*TextBox); ok {
				out += string(t.Text)
			}
			for _, c := range x.Box().Children {
				walk(c)
			}
		}
		walk(b)
		return out, true
	}
	for _, c := range b.Box().Children {
		if s, ok := vxPseudoText(c, tag); ok {
			return s, true
		}
	}
	return "", false
}

// generated quotes: any sequence of open-quote / close-quote / no-open-quote / no-close-quote
// over nested elements builds without crashing (the quote depth never leaves the quotes
// list), and wherever CSS defines the mark (depth >= 1 before a close) the mark printed is the one of
// the current depth, clamped to the last pair.
func VxH_C01_quotes() {
	// body > x-a (::before, ::after) > x-b (::before, ::after) ; x-c (::before) sibling of x-a
	kinds := []string{"", "open-quote", "close-quote", "no-open-quote", "no-close-quote"}
	slots := []string{"x-a::before", "x-b::before", "x-b::after", "x-a::after", "x-c::before"} // document order
	chosen := make([]int, len(slots))
	css := "body{quotes: '<' '>' '[' ']'} x-a,x-b,x-c{display:block} "
	open, closeQ := []string{"<", "["}, []string{">", "]"}
	if vx.Tier() > 0 && vx.Choose("single-pair", 2) == 1 {
		css = "body{quotes: '<' '>'} x-a,x-b,x-c{display:block} "
		open, closeQ = []string{"<"}, []string{">"}
	}
	for i, s := range slots {
		chosen[i] = vx.Choose("content-"+s, len(kinds))
		if chosen[i] != 0 {
			css += s + "{content: " + kinds[chosen[i]] + "} "
		}
	}
	src := "<html><head><style>" + css + "</style></head><body><x-a><x-b></x-b></x-a><x-c></x-c></body></html>"
	doc, err := tree.NewHTML(utils.InputString(src), "", nil, "")
	if err != nil {
		panic(err)
	}
	root := vxBuild(doc)
	vx.Reach("built")
	depth := 0
	for i, s := range slots {
		want, defined := "", true
		switch chosen[i] {
		case 0:
			continue
		case 1:
			want = open[utils.MinInt(depth, len(open)-1)]
			depth++
		case 2:
			if depth == 0 {
				defined = false // CSS: an error, nothing rendered; WeasyPrint prints the first closing mark
			} else {
				depth--
				want = closeQ[utils.MinInt(depth, len(closeQ)-1)]
			}
		case 3:
			depth++
		case 4:
			if depth > 0 {
				depth--
			}
		}
		got, ok := vxPseudoText(root, s)
		if chosen[i] == 3 || chosen[i] == 4 {
			// no mark: the pseudo-element has empty content
			vx.Assert("no-mark:"+s, !ok || got == "")
			continue
		}
		if !defined {
			vx.Assert("depth0-close-no-crash:"+s, !ok || got == "" || got == closeQ[0])
			continue
		}
		vx.Assert("quote-present:"+s, ok)
		vx.Assert("quote-mark:"+s, got == want)
	}
}
