//go:build verif

package boxes

import (
	"github.com/benoitkugler/webrender/html/tree"
	"github.com/benoitkugler/webrender/utils"
	"github.com/benoitkugler/webrender/vx"
	"golang.org/x/net/html"
	"golang.org/x/net/html/atom"
)

// colspan / rowspan / span are untrusted text: whatever the attribute holds, the value read is
// inside the limits HTML sets (colspan and span 1..1000, rowspan 0..65534), so that no later
// loop or allocation depends on an arbitrary author-chosen number.
func VxH_C07_span_attributes() {
	doc, err := tree.NewHTML(utils.InputString("<html><body><table><colgroup><col></colgroup><tr><td></td></tr></table></body></html>"), "", nil, "")
	if err != nil {
		panic(err)
	}
	root := vxBuild(doc)
	var cellStyle, colStyle, groupStyle Box
	var walk func(b Box)
	walk = func(b Box) {
		switch {
		case TableCellT.IsInstance(b):
			cellStyle = b
		case TableColumnT.IsInstance(b):
			colStyle = b
		case TableColumnGroupT.IsInstance(b):
			groupStyle = b
		}
		for _, c := range b.Box().Children {
			walk(c)
		}
		if t, ok := b.(TableBoxITF); ok {
			for _, g := range t.Table().ColumnGroups {
				walk(g)
			}
		}
	}
	walk(root)
	vx.Assert("table-parts-built", cellStyle != nil && colStyle != nil && groupStyle != nil)
	n := vx.Choose("len", 6+3*vx.Tier())
	b := vx.Bytes("attr", n)
	for i := range b {
		vx.Assume(vx.And(b[i] >= ' ', b[i] <= '~'))
	}
	s := string(b)
	attrs := []html.Attribute{{Key: "colspan", Val: s}, {Key: "rowspan", Val: s}, {Key: "span", Val: s}}
	td := &html.Node{Type: html.ElementNode, Data: "td", DataAtom: atom.Td, Attr: attrs}
	cell := NewTableCellBox(cellStyle.Box().Style, td, "", nil)
	vx.Reach("read")
	vx.Assert("colspan-within-html-limits", cell.Colspan >= 1 && cell.Colspan <= 1000)
	vx.Assert("rowspan-within-html-limits", cell.Rowspan >= 0 && cell.Rowspan <= 65534)
	col := NewTableColumnBox(colStyle.Box().Style, &html.Node{Type: html.ElementNode, Data: "col", DataAtom: atom.Col, Attr: attrs}, "", nil)
	vx.Assert("col-span-within-html-limits", col.span() >= 1 && col.span() <= 1000)
	grp := NewTableColumnGroupBox(groupStyle.Box().Style, &html.Node{Type: html.ElementNode, Data: "colgroup", DataAtom: atom.Colgroup, Attr: attrs}, "", nil)
	vx.Assert("colgroup-span-within-html-limits", grp.span() >= 1 && grp.span() <= 1000)
}
