//go:build verif

package boxes

import (
	"github.com/benoitkugler/webrender/css/counters"
	pr "github.com/benoitkugler/webrender/css/properties"
	"github.com/benoitkugler/webrender/html/tree"
	"github.com/benoitkugler/webrender/utils"
	"github.com/benoitkugler/webrender/vx"
	"golang.org/x/net/html"
)

func vxBuild(doc *tree.HTML) BlockLevelBoxITF {
	cs := make(counters.CounterStyle)
	style := tree.GetAllComputedStyles(doc, nil, false, nil, cs, nil, nil, false, nil)
	tr := tree.NewTargetCollector()
	return BuildFormattingStructure(doc.Root, style, URLResolver{}, "", &tr, cs, new([]Box))
}

func vxWalk(n *html.Node, f func(*html.Node)) {
	f(n)
	for c := n.FirstChild; c != nil; c = c.NextSibling {
		vxWalk(c, f)
	}
}

func vxCells(b Box, out *[]*BoxFields, rows *[][]*BoxFields) {
	if TableRowT.IsInstance(b) {
		var row []*BoxFields
		for _, c := range b.Box().Children {
			if TableCellT.IsInstance(c) {
				row = append(row, c.Box())
				*out = append(*out, c.Box())
			}
		}
		*rows = append(*rows, row)
		return
	}
	for _, c := range b.Box().Children {
		vxCells(c, out, rows)
	}
}

// table grid: cells of a row take increasing free slots, a cell never starts on an occupied
// slot, rowspan is clipped to the row group (0 = to its end), colspan is at least 1.
func VxH_C09_grid() {
	nrows, ncols := 2+vx.Tier(), 2
	src := "<html><body><table>"
	for r := 0; r < nrows; r++ {
		src += "<tr><td></td><td></td></tr>"
	}
	src += "</table></body></html>"
	doc, err := tree.NewHTML(utils.InputString(src), "", nil, "")
	if err != nil {
		panic(err)
	}
	// a minimal user-agent sheet (the full one only slows each path down)
	D := func(v ...string) []tree.VxDecl {
		return []tree.VxDecl{{Prop: pr.PDisplay, Value: pr.Display{v[0], v[1]}}}
	}
	doc.UAStyleSheet = tree.VxSheet(
		tree.VxRule{Tag: "html", Decls: D("block", "flow")}, tree.VxRule{Tag: "body", Decls: D("block", "flow")},
		tree.VxRule{Tag: "table", Decls: D("block", "table")},
		tree.VxRule{Tag: "head", Decls: []tree.VxDecl{{Prop: pr.PDisplay, Value: pr.Display{"none"}}}},
		tree.VxRule{Tag: "tbody", Decls: []tree.VxDecl{{Prop: pr.PDisplay, Value: pr.Display{"table-row-group"}}}},
		tree.VxRule{Tag: "tr", Decls: []tree.VxDecl{{Prop: pr.PDisplay, Value: pr.Display{"table-row"}}}},
		tree.VxRule{Tag: "td", Decls: []tree.VxDecl{{Prop: pr.PDisplay, Value: pr.Display{"table-cell"}}}},
	)
	// symbolic colspan / rowspan attribute values (one digit, or absent)
	k := 0
	type spans struct{ col, row int }
	var want []spans
	vxWalk((*html.Node)(doc.Root), func(n *html.Node) {
		if n.Type != html.ElementNode || n.Data != "td" {
			return
		}
		id := string(rune('a' + k))
		k++
		cs, rs := 1, 1
		lastRow := k > ncols*(nrows-1)
		// (thorough, three rows: the middle row carries no attribute of its own — with every cell symbolic
		// the exploration does not finish in 90 minutes — it only receives the spans from above)
		middle := nrows == 3 && k > ncols && k <= 2*ncols
		if middle {
			want = append(want, spans{1, 1})
			return
		}
		if !(lastRow && k%ncols == 0) && vx.Bool("has-colspan-"+id) {
			d := vx.ByteIn("colspan-"+id, '0', '3')
			n.Attr = append(n.Attr, html.Attribute{Key: "colspan", Val: string([]byte{d})})
			cs = int(d - '0')
			if cs < 1 {
				cs = 1
			}
		}
		if !lastRow && vx.Bool("has-rowspan-"+id) {
			d := vx.ByteIn("rowspan-"+id, '0', '3')
			n.Attr = append(n.Attr, html.Attribute{Key: "rowspan", Val: string([]byte{d})})
			rs = int(d - '0')
		}
		want = append(want, spans{cs, rs})
	})
	root := vxBuild(doc)
	vx.Reach("built")
	var cells []*BoxFields
	var rows [][]*BoxFields
	vxCells(root, &cells, &rows)
	vx.Assert("all-cells-present", len(cells) == ncols*nrows && len(rows) == nrows)
	// reference slot assignment (HTML table model, one row group)
	occupied := map[[2]int]bool{}
	i := 0
	for y, row := range rows {
		x := 0
		for _, c := range row {
			for occupied[[2]int{x, y}] {
				x++
			}
			w := want[i]
			i++
			rs := w.row
			if rs == 0 || rs > nrows-y {
				rs = nrows - y
			}
			vx.Assert("grid-x", c.GridX == x)
			vx.Assert("colspan", c.Colspan == w.col)
			vx.Assert("rowspan-clipped", c.Rowspan == rs)
			overlap := false
			for dx := 1; dx < w.col; dx++ {
				if occupied[[2]int{x + dx, y}] {
					overlap = true // the cell spans into a slot held by a row-spanning cell from above
				}
			}
			if overlap {
				vx.Reach("region:colspan-into-rowspan")
			}
			vx.Assert("no-two-cells-on-a-slot", !overlap)
			for dy := 1; dy < rs; dy++ {
				for dx := 0; dx < w.col; dx++ {
					occupied[[2]int{x + dx, y + dy}] = true
				}
			}
			x += w.col
		}
	}
}
