//go:build verif

package boxes

import (
	"github.com/benoitkugler/webrender/html/tree"
	"github.com/benoitkugler/webrender/utils"
	"github.com/benoitkugler/webrender/vx"
)

func vxInFlow(b Box) []Box {
	var out []Box
	for _, c := range b.Box().Children {
		if c.Box().IsInNormalFlow() {
			out = append(out, c)
		}
	}
	return out
}

// the well-formedness rules of the statement, checked on every box of the tree
func vxWellFormed(b Box, parent Box) {
	tag := b.Box().ElementTag()
	kids := vxInFlow(b)
	_, isText := b.(*TextBox)
	if isText {
		return
	}
	switch {
	case FlexContainerT.IsInstance(b) || GridContainerT.IsInstance(b):
		for _, c := range kids {
			vx.Assert("flex-grid-items-blockified:"+tag, BlockLevelT.IsInstance(c) && !InlineLevelT.IsInstance(c))
		}
	case TableT.IsInstance(b):
		vx.Assert("table-in-wrapper:"+tag, parent != nil && parent.Box().IsTableWrapper)
		for _, c := range b.Box().Children {
			ok := TableCaptionT.IsInstance(c) || TableColumnGroupT.IsInstance(c) || TableColumnT.IsInstance(c) ||
				TableRowGroupT.IsInstance(c) || TableRowT.IsInstance(c)
			vx.Assert("table-children:"+tag, ok)
		}
	case TableRowGroupT.IsInstance(b):
		for _, c := range b.Box().Children {
			vx.Assert("row-group-children:"+tag, TableRowT.IsInstance(c))
		}
	case TableColumnGroupT.IsInstance(b):
		for _, c := range b.Box().Children {
			vx.Assert("column-group-children:"+tag, TableColumnT.IsInstance(c))
		}
	case TableRowT.IsInstance(b):
		for _, c := range b.Box().Children {
			vx.Assert("row-children:"+tag, TableCellT.IsInstance(c))
		}
	case BlockContainerT.IsInstance(b):
		nLines, nBlocks, nOther := 0, 0, 0
		for _, c := range kids {
			switch {
			case LineT.IsInstance(c):
				nLines++
			case BlockLevelT.IsInstance(c):
				nBlocks++
			default:
				nOther++
			}
		}
		vx.Assert("block-container-children:"+tag, nOther == 0)
		vx.Assert("block-container-blocks-or-one-line:"+tag, (nLines == 0) || (nLines == 1 && nBlocks == 0))
		if b.Box().IsTableWrapper {
			nTables := 0
			for _, c := range kids {
				if TableT.IsInstance(c) {
					nTables++
				} else {
					vx.Assert("wrapper-children:"+tag, TableCaptionT.IsInstance(c))
				}
			}
			vx.Assert("wrapper-one-table:"+tag, nTables == 1)
		}
	case LineT.IsInstance(b) || InlineT.IsInstance(b):
		for _, c := range kids {
			vx.Assert("inline-holds-inline-level:"+tag, InlineLevelT.IsInstance(c) && !BlockLevelT.IsInstance(c))
		}
	}
	if TableCellT.IsInstance(b) {
		vx.Assert("cell-in-row:"+tag, parent != nil && TableRowT.IsInstance(parent))
	}
	if TableRowT.IsInstance(b) {
		vx.Assert("row-in-group-or-table:"+tag, parent != nil && (TableRowGroupT.IsInstance(parent) || TableT.IsInstance(parent)))
	}
	if TableRowGroupT.IsInstance(b) || TableColumnGroupT.IsInstance(b) {
		vx.Assert("group-in-table:"+tag, parent != nil && TableT.IsInstance(parent))
	}
	if TableCaptionT.IsInstance(b) {
		vx.Assert("caption-in-wrapper-or-table:"+tag, parent != nil && (parent.Box().IsTableWrapper || TableT.IsInstance(parent)))
	}
	for _, c := range b.Box().Children {
		vxWellFormed(c, b)
	}
}

func vxHasTag(b Box, tag string) bool {
	if b.Box().ElementTag() == tag {
		return true
	}
	for _, c := range b.Box().Children {
		if vxHasTag(c, tag) {
			return true
		}
	}
	return false
}

var vxDisplays = []string{
	"block", "inline", "inline-block", "flex", "grid", "table", "inline-table", "list-item", "none",
	"table-cell", "table-row", "table-row-group", "table-caption", "table-column", "inline-flex", "inline-grid",
	"table-column-group", "flow-root", "table-header-group",
}

// x-p > x-s > ( text, x-i, text, x-j > x-k ), display of every element chosen freely, float /
// position of x-i too: the resulting tree is well formed and display: none generates nothing.
func VxH_C09_wellformed() {
	dispP := []string{"block", "flex", "inline"}
	dispS := []string{"inline", "block", "inline-grid", "inline-flex", "grid", "flex", "inline-block"}
	dispI := []string{"block", "inline", "inline-block", "flex", "table", "none"}
	dispJ := []string{"block", "inline", "table", "none"}
	dispK := []string{"block", "inline", "table-cell", "none"}
	nP, nS, nK := 2, 6, 2
	if vx.Tier() > 0 {
		// (every display value for x-i; all 19 x 19 combinations with x-j would be ~120000 documents)
		nS, nK = len(dispS), 4
		dispI = vxDisplays
	}
	nI := len(dispI)
	dp := vx.Choose("display-p", nP)
	ds := vx.Choose("display-s", nS)
	di := vx.Choose("display-i", nI)
	dj := vx.Choose("display-j", len(dispJ))
	dk := vx.Choose("display-k", nK)
	fl := vx.Choose("float-i", 2)
	po := vx.Choose("position-i", 2)
	css := "x-p{display:" + dispP[dp] + "} " +
		"x-s{display:" + dispS[ds] + "} " +
		"x-i{display:" + dispI[di] + ";float:" + []string{"none", "left"}[fl] + ";position:" + []string{"static", "absolute"}[po] + "} " +
		"x-j{display:" + dispJ[dj] + "} " +
		"x-k{display:" + dispK[dk] + "} "
	src := "<html><head><style>" + css + "</style></head><body><x-p><x-s>t<x-i></x-i>u<x-j><x-k></x-k></x-j></x-s></x-p></body></html>"
	doc, err := tree.NewHTML(utils.InputString(src), "", nil, "")
	if err != nil {
		panic(err)
	}
	root := vxBuild(doc)
	vx.Reach("built")
	vxWellFormed(root, nil)
	if dispI[di] == "none" {
		vx.Assert("display-none-generates-no-box:x-i", !vxHasTag(root, "x-i"))
	}
	if dispJ[dj] == "none" {
		vx.Assert("display-none-generates-no-box:x-j", !vxHasTag(root, "x-j") && !vxHasTag(root, "x-k"))
	}
	if dispK[dk] == "none" {
		vx.Assert("display-none-generates-no-box:x-k", !vxHasTag(root, "x-k"))
	}
}

// mis-nested table parts: any table part display inside any (inline-)table or non-table parent
// still yields a well-formed tree (anonymous boxes supplied for the missing levels).
func VxH_C09_table_parts() {
	parents := []string{"table", "inline-table", "block", "inline", "table-row", "table-row-group", "flex"}
	parts := []string{"table-column", "table-column-group", "table-row", "table-cell", "table-caption", "table-row-group", "table-header-group", "inline", "block"}
	dj := parents[vx.Choose("display-j", len(parents))]
	dk := parts[vx.Choose("display-k", len(parts))]
	di := parts[vx.Choose("display-i", len(parts))]
	css := "x-p{display:block} x-j{display:" + dj + "} x-k{display:" + dk + "} x-i{display:" + di + "} "
	src := "<html><head><style>" + css + "</style></head><body><x-p><x-j><x-k></x-k><x-i></x-i></x-j></x-p></body></html>"
	doc, err := tree.NewHTML(utils.InputString(src), "", nil, "")
	if err != nil {
		panic(err)
	}
	root := vxBuild(doc)
	vx.Reach("built")
	vxWellFormed(root, nil)
}
