//go:build verif

package boxes

import (
	"github.com/benoitkugler/webrender/html/tree"
	"github.com/benoitkugler/webrender/utils"
	"github.com/benoitkugler/webrender/vx"
)

// @counter-style descriptors through the real style sheet pipeline: `negative: <prefix> <suffix>`
// wraps the digits in that order, and `range: infinite N` / `range: N infinite` bound the style
// on one side only (values outside go to the fallback).
func VxH_C19_descriptors_from_css() {
	letters := "symbols: 'a' 'b' 'c' 'd' 'e' 'f' 'g' 'h' 'i' 'j'"
	variant := vx.Choose("variant", 4)
	value := []int{-12, -2, 3, 7}[vx.Choose("value", 4)]
	var desc, want string
	digits := func(n int) string { // numeric over the ten letters
		s := vxItoa(n)
		out := ""
		for _, c := range s {
			out += string(rune('a' + (c - '0')))
		}
		return out
	}
	abs := value
	if abs < 0 {
		abs = -abs
	}
	switch variant {
	case 0:
		desc = "negative: '(' ')'"
		want = digits(abs)
		if value < 0 {
			want = "(" + want + ")"
		}
	case 1:
		desc = "negative: '~'"
		want = digits(abs)
		if value < 0 {
			want = "~" + want
		}
	case 2:
		desc = "range: infinite 5"
		if value <= 5 {
			want = digits(abs)
			if value < 0 {
				want = "-" + want
			}
		} else {
			want = vxItoa(value)
		}
	default:
		desc = "range: 0 infinite"
		if value >= 0 {
			want = digits(value)
		} else {
			want = vxItoa(value)
		}
	}
	css := "@counter-style s { system: numeric; " + letters + "; " + desc + " } " +
		"x-a{display:block;counter-reset: c " + vxItoa(value) + "} x-a::before{content: counter(c, s)} "
	src := "<html><head><style>" + css + "</style></head><body><x-a></x-a></body></html>"
	doc, err := tree.NewHTML(utils.InputString(src), "", nil, "")
	if err != nil {
		panic(err)
	}
	root := vxBuild(doc)
	vx.Reach("built")
	got, ok := vxBeforeText(root, "x-a")
	vx.Assert("marker-present", ok)
	vx.ObserveString("got", got)
	vx.Assert("counter-text", got == want)
}
