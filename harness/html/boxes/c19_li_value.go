//go:build verif

package boxes

import (
	"github.com/benoitkugler/webrender/css/counters"
	"github.com/benoitkugler/webrender/html/tree"
	"github.com/benoitkugler/webrender/utils"
	"github.com/benoitkugler/webrender/vx"
)

func vxMarkers(b Box, out *[]string) {
	if b.Box().ElementTag() == "li::marker" {
		s := ""
		var walk func(Box)
		walk = func(x Box) {
			if t, ok := x.(*TextBox); ok {
				s += string(t.Text)
			}
			for _, c := range x.Box().Children {
				walk(c)
			}
		}
		walk(b)
		*out = append(*out, s)
		return
	}
	for _, c := range b.Box().Children {
		vxMarkers(c, out)
	}
}

// the list-item counter follows the HTML presentational hints: <ol start=N> numbers from N,
// <li value=N> sets the counter of that item (and the following ones count on from it); the
// value attribute of other elements means nothing.
func VxH_C19_li_value() {
	start := vx.Choose("ol-start", 3)        // 0: none, 1: start=5, 2: start=0
	value := vx.Choose("second-li-value", 3) // 0: none, 1: value=7, 2: value=-2
	ulValue := vx.Choose("ul-value", 2) == 1
	olAttr, liAttr, ulAttr := "", "", ""
	first := 1
	switch start {
	case 1:
		olAttr, first = " start=5", 5
	case 2:
		olAttr, first = " start=0", 0
	}
	second := first + 1
	switch value {
	case 1:
		liAttr, second = " value=7", 7
	case 2:
		liAttr, second = " value=-2", -2
	}
	if ulValue {
		ulAttr = " value=9"
	}
	src := "<html><body><ol" + olAttr + "><li></li><li" + liAttr + "></li><li></li></ol><ul" + ulAttr + "><li></li></ul></body></html>"
	doc, err := tree.NewHTML(utils.InputString(src), "", nil, "")
	if err != nil {
		panic(err)
	}
	cs := make(counters.CounterStyle)
	style := tree.GetAllComputedStyles(doc, nil, true, nil, cs, nil, nil, false, nil)
	tr := tree.NewTargetCollector()
	root := BuildFormattingStructure(doc.Root, style, URLResolver{}, "", &tr, cs, new([]Box))
	vx.Reach("built")
	var markers []string
	vxMarkers(root, &markers)
	vx.Assert("four-markers", len(markers) == 4)
	if len(markers) == 4 {
		vx.Assert("first-item", markers[0] == vxItoa(first)+". ")
		vx.Assert("second-item", markers[1] == vxItoa(second)+". ")
		vx.Assert("third-item", markers[2] == vxItoa(second+1)+". ")
	}
}
