//go:build verif

package boxes

import (
	"github.com/benoitkugler/webrender/html/tree"
	"github.com/benoitkugler/webrender/utils"
	"github.com/benoitkugler/webrender/vx"
)

func vxBeforeText(b Box, tag string) (string, bool) {
	if f := b.Box(); f.ElementTag() == tag+"::before" {
		out := ""
		var walk func(Box)
		walk = func(x Box) {
			if t, ok := x.(*TextBox); ok {
				out += string(t.Text)
			}
			for _, c := range x.Box().Children {
				walk(c)
			}
		}
		walk(b)
		return out, true
	}
	for _, c := range b.Box().Children {
		if s, ok := vxBeforeText(c, tag); ok {
			return s, true
		}
	}
	return "", false
}

func vxItoa(n int) string {
	if n == 0 {
		return "0"
	}
	neg := n < 0
	if neg {
		n = -n
	}
	s := ""
	for n > 0 {
		s = string(rune('0'+n%10)) + s
		n /= 10
	}
	if neg {
		s = "-" + s
	}
	return s
}

// counter scoping (CSS Lists): reset opens an instance scoped to the element's following
// siblings and their descendants (replacing one opened by an earlier sibling), set and
// increment act on the innermost instance and open one when none exists, counters()
// prints every instance outermost first.
func VxH_C19_scope() {
	// body > x-a > x-a1 ; then x-b ; then x-c (siblings of x-a)
	tags := []string{"x-a", "x-a1", "x-b", "x-c"}
	ops := []string{"", "counter-reset: c 5", "counter-set: c 7", "counter-increment: c 2"}
	css := ""
	chosen := make([]int, len(tags))
	for i, t := range tags {
		chosen[i] = vx.Choose("op-"+t, len(ops))
		css += t + "{display:block;" + ops[chosen[i]] + "} " + t + "::before{content: counters(c, '.')} "
	}
	src := "<html><head><style>" + css + "</style></head><body><x-a><x-a1></x-a1></x-a><x-b></x-b><x-c></x-c></body></html>"
	doc, err := tree.NewHTML(utils.InputString(src), "", nil, "")
	if err != nil {
		panic(err)
	}
	root := vxBuild(doc)
	vx.Reach("built")
	// reference: stack of instance values, and per nesting depth the set of instances opened there
	var stack []int
	type frame struct{ opened int } // number of instances opened by the children of one element so far
	apply := func(op int, siblings *frame) {
		switch op {
		case 1: // reset: replaces the instance opened by an earlier sibling, otherwise nests
			if siblings.opened > 0 {
				stack = stack[:len(stack)-1]
				siblings.opened--
			}
			stack = append(stack, 5)
			siblings.opened++
		case 2:
			if len(stack) == 0 {
				stack = append(stack, 7)
				siblings.opened++
			} else {
				stack[len(stack)-1] = 7
			}
		case 3:
			if len(stack) == 0 {
				stack = append(stack, 2)
				siblings.opened++
			} else {
				stack[len(stack)-1] += 2
			}
		}
	}
	render := func() string {
		if len(stack) == 0 {
			return "0"
		}
		s := ""
		for i, v := range stack {
			if i > 0 {
				s += "."
			}
			s += vxItoa(v)
		}
		return s
	}
	want := map[string]string{}
	bodyKids := &frame{}
	// x-a
	apply(chosen[0], bodyKids)
	want["x-a"] = render()
	aKids := &frame{}
	apply(chosen[1], aKids)
	want["x-a1"] = render()
	stack = stack[:len(stack)-aKids.opened] // leaving x-a: instances opened by its children end
	// x-b, x-c
	apply(chosen[2], bodyKids)
	want["x-b"] = render()
	apply(chosen[3], bodyKids)
	want["x-c"] = render()
	for _, t := range tags {
		got, ok := vxBeforeText(root, t)
		vx.Assert("marker-present:"+t, ok)
		vx.Assert("counters-text:"+t, got == want[t])
	}
}
