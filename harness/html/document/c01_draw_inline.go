//go:build verif

package document

import (
	pr "github.com/benoitkugler/webrender/css/properties"
	"github.com/benoitkugler/webrender/html/layout"
	"github.com/benoitkugler/webrender/html/tree"
	"github.com/benoitkugler/webrender/text"
	"github.com/benoitkugler/webrender/text/hyphen"
	"github.com/benoitkugler/webrender/utils"
	"github.com/benoitkugler/webrender/vx"
)

// atomic inline-level boxes of every kind (inline-block / -flex / -grid / -table), possibly
// creating a stacking context, are laid out in a line and painted without crashing, and their
// own background and their child's reach the canvas once each.
func VxH_C01_draw_inline_levels() {
	displays := []string{"inline-block", "inline-flex", "inline-grid", "inline-table", "inline", "block", "flex", "grid"}
	d := displays[vx.Choose("display", len(displays))]
	ctxs := []string{"", "position:relative;", "opacity:0.5;", "position:relative;z-index:1;", "float:left;"}
	c := ctxs[vx.Choose("context", len(ctxs))]
	// colours: element 2 = section (x-i), element 4 = nav (its child), see vxColorName
	css := "@page{size:200px 200px;margin:0} html,body{margin:0} head{display:none} p{display:block;margin:0;font-size:10px;line-height:10px} " +
		"x-i{display:" + d + ";" + c + "width:40px;height:20px;background-color:rgb(2,1,0)} x-c{display:block;width:10px;height:10px;background-color:rgb(4,1,0)} "
	src := "<html><head><style>" + css + "</style></head><body><p><x-i><x-c></x-c></x-i></p></body></html>"
	doc, err := tree.NewHTML(utils.InputString(src), "", nil, "")
	if err != nil {
		panic(err)
	}
	pages := layout.Layout(doc, nil, false, text.VxAhem{})
	vx.Reach("laid-out")
	canvas := vxNewCanvas()
	ctx := drawContext{
		dst:               canvas,
		fonts:             text.VxAhem{},
		hyphenCache:       make(map[text.HyphenDictKey]hyphen.Hyphener),
		strutLayoutsCache: make(map[text.StrutLayoutKey][2]pr.Float),
	}
	ctx.drawPage(pages[0])
	vx.Reach("drawn")
	outer, inner := 0, 0
	for _, t := range *canvas.log {
		if t == "bg:section" {
			outer++
		}
		if t == "bg:nav" {
			inner++
		}
	}
	if d != "inline" { // an inline box split around its block child paints one background per fragment
		vx.Assert("own-background-painted-once", outer == 1)
	}
	vx.Assert("child-background-painted-once", inner == 1)
	vx.Assert("numbers-finite-and-paths-before-paints", len(*canvas.protocol) == 0)
}
