//go:build verif

package document

import (
	pr "github.com/benoitkugler/webrender/css/properties"
	"github.com/benoitkugler/webrender/html/layout"
	"github.com/benoitkugler/webrender/html/tree"
	"github.com/benoitkugler/webrender/text"
	"github.com/benoitkugler/webrender/text/hyphen"
	"github.com/benoitkugler/webrender/utils"
	"github.com/benoitkugler/webrender/vx"
)

// border images (a gradient source): whatever the slice, repeat mode and box size, every
// number handed to the backend is finite and paints / clips follow a path.
func VxH_C14_border_image() {
	slices := []string{"10", "0", "10 0", "0 10", "0%", "30%", "10 fill", "100%"}
	repeats := []string{"stretch", "repeat", "round", "space"}
	sl := slices[vx.Choose("slice", len(slices))]
	rp := repeats[vx.Choose("repeat", len(repeats))]
	W := pr.Float(vx.F32("width"))
	H := pr.Float(vx.F32("height"))
	vx.Assume(vx.And(vx.And(W >= 0, W <= 100), vx.And(H >= 0, H <= 100)))
	css := "@page{size:200px 200px;margin:0} html,body{margin:0} head{display:none} " +
		"div{border:10px solid black;border-image-source:linear-gradient(red,blue);border-image-slice:" + sl + ";border-image-repeat:" + rp + "} "
	src := "<html><head><style>" + css + "</style></head><body><div></div></body></html>"
	doc, err := tree.NewHTML(utils.InputString(src), "", nil, "")
	if err != nil {
		panic(err)
	}
	D := func(p pr.KnownProp, v pr.DeclaredValue) tree.VxDecl { return tree.VxDecl{Prop: p, Value: v} }
	px := func(v pr.Float) pr.DimOrS { return pr.Dimension{Value: v, Unit: pr.Px}.ToValue() }
	sheet := tree.VxSheet(tree.VxRule{Tag: "div", Decls: []tree.VxDecl{D(pr.PWidth, px(W)), D(pr.PHeight, px(H))}})
	pages := layout.Layout(doc, []tree.CSS{sheet}, false, nil)
	vx.Reach("laid-out")
	canvas := vxNewCanvas()
	ctx := drawContext{
		dst:               canvas,
		hyphenCache:       make(map[text.HyphenDictKey]hyphen.Hyphener),
		strutLayoutsCache: make(map[text.StrutLayoutKey][2]pr.Float),
	}
	ctx.drawPage(pages[0])
	vx.Reach("drawn")
	vx.Assert("numbers-finite-and-paths-before-paints", len(*canvas.protocol) == 0)
}
