//go:build verif

package document

import (
	"github.com/benoitkugler/webrender/backend"
	"github.com/benoitkugler/webrender/vx"
)

type vxNode struct {
	label    string
	page     int
	children []vxNode
}

func vxConv(ns []backend.BookmarkNode) []vxNode {
	var out []vxNode
	for _, n := range ns {
		out = append(out, vxNode{n.Label, n.PageIndex, vxConv(n.Children)})
	}
	return out
}

func vxNodesEq(a, b []vxNode) bool {
	if len(a) != len(b) {
		return false
	}
	for i := range a {
		if a[i].label != b[i].label || a[i].page != b[i].page || !vxNodesEq(a[i].children, b[i].children) {
			return false
		}
	}
	return true
}

// the outline follows the bookmark levels: every bookmark is the child of the nearest
// preceding bookmark of lower level (a root otherwise), in document order, on its own page.
func VxH_C14_outline() {
	n := vx.Choose("n", 4+vx.Tier()) + 1
	d := Document{Pages: []Page{{}, {}}}
	type bk struct {
		level, page int
		label       string
	}
	var all []bk
	split := vx.Choose("first-page-count", n+1)
	for i := 0; i < n; i++ {
		lvl := vx.Int("level"+string(rune('0'+i)), 1, 6)
		label := string(rune('A' + i))
		pg := 0
		if i >= split {
			pg = 1
		}
		d.Pages[pg].bookmarks = append(d.Pages[pg].bookmarks, bookmarkData{label: label, level: lvl})
		all = append(all, bk{lvl, pg, label})
	}
	got := vxConv(d.makeBookmarkTree())
	vx.Reach("built")
	// reference: parent = nearest preceding bookmark with a strictly lower level
	parent := make([]int, n)
	for i := range all {
		parent[i] = -1
		for j := i - 1; j >= 0; j-- {
			if all[j].level < all[i].level {
				parent[i] = j
				break
			}
		}
	}
	var build func(p int) []vxNode
	build = func(p int) []vxNode {
		var out []vxNode
		for i := range all {
			if parent[i] == p {
				out = append(out, vxNode{all[i].label, all[i].page, build(i)})
			}
		}
		return out
	}
	vx.Assert("outline-follows-levels", vxNodesEq(got, build(-1)))
}

// internal links name anchors that are defined exactly once (first page wins); links to
// missing anchors are dropped; external links are kept.
func VxH_C14_links() {
	names := func(id string) string { return string([]byte{vx.ByteIn(id, 'a', 'c')}) }
	d := Document{Pages: []Page{{anchors: anchors{}}, {anchors: anchors{}}}}
	for p := 0; p < 2; p++ {
		for k := 0; k < 2; k++ {
			id := string(rune('0'+p)) + string(rune('0'+k))
			if vx.Bool("has-anchor-" + id) {
				d.Pages[p].anchors[names("anchor-"+id)] = [2]fl{fl(p), fl(k)}
			}
			if vx.Bool("has-link-" + id) {
				typ := "internal"
				if vx.Bool("external-" + id) {
					typ = "external"
				}
				d.Pages[p].links = append(d.Pages[p].links, Link{Type: typ, Target: names("link-" + id)})
			}
		}
	}
	links, anch := d.resolveLinks()
	vx.Reach("resolved")
	vx.Assert("one-list-per-page", len(links) == 2 && len(anch) == 2)
	defined := map[string]int{}
	for p, l := range anch {
		for _, a := range l {
			_, dup := defined[a.Name]
			vx.Assert("anchor-defined-once", !dup)
			defined[a.Name] = p
			_, onPage := d.Pages[p].anchors[a.Name]
			vx.Assert("anchor-from-its-page", onPage)
			if p == 1 {
				_, onFirst := d.Pages[0].anchors[a.Name]
				vx.Assert("first-page-wins", !onFirst)
			}
		}
	}
	for p := 0; p < 2; p++ {
		for name := range d.Pages[p].anchors {
			_, ok := defined[name]
			vx.Assert("every-anchor-defined", ok)
		}
		want := 0
		for _, l := range d.Pages[p].links {
			_, ok := defined[l.Target]
			if l.Type != "internal" || ok {
				want++
			}
		}
		vx.Assert("dangling-links-dropped-others-kept", len(links[p]) == want)
		for _, l := range links[p] {
			if l.Type == "internal" {
				_, ok := defined[l.Target]
				vx.Assert("internal-link-has-anchor", ok)
			}
		}
	}
}
