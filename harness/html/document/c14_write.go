//go:build verif

package document

import (
	"time"

	"github.com/benoitkugler/webrender/backend"
	pr "github.com/benoitkugler/webrender/css/properties"
	"github.com/benoitkugler/webrender/html/tree"
	"github.com/benoitkugler/webrender/utils"
	"github.com/benoitkugler/webrender/vx"
)

// a recording backend.Document
type vxRecPage struct {
	*vxCanvas
	index    int
	internal []string // anchor names of AddInternalLink, in order
	external []string
	boxes    int // SetMediaBox / SetTrimBox / SetBleedBox calls
	rects    [][4]backend.Fl
}

func (p *vxRecPage) AddInternalLink(xMin, yMin, xMax, yMax backend.Fl, anchorName string) {
	p.internal = append(p.internal, anchorName)
	p.rects = append(p.rects, [4]backend.Fl{xMin, yMin, xMax, yMax})
}

func (p *vxRecPage) AddExternalLink(xMin, yMin, xMax, yMax backend.Fl, url string) {
	p.external = append(p.external, url)
	p.rects = append(p.rects, [4]backend.Fl{xMin, yMin, xMax, yMax})
}
func (p *vxRecPage) AddFileAnnotation(xMin, yMin, xMax, yMax backend.Fl, fileID string) {}
func (p *vxRecPage) SetMediaBox(left, top, right, bottom backend.Fl)                    { p.boxes++ }
func (p *vxRecPage) SetTrimBox(left, top, right, bottom backend.Fl)                     { p.boxes++ }
func (p *vxRecPage) SetBleedBox(left, top, right, bottom backend.Fl)                    { p.boxes++ }

type vxRecDoc struct {
	pages       []*vxRecPage
	pageSizes   [][4]backend.Fl
	anchors     [][]backend.Anchor
	anchorCalls int
	afterPages  bool // CreateAnchors came after every AddPage
	title       string
	authors     []string
	description string
	keywords    []string
	bookmarks   int
}

func (d *vxRecDoc) AddPage(left, top, right, bottom backend.Fl) backend.Page {
	p := &vxRecPage{vxCanvas: vxNewCanvas(), index: len(d.pages)}
	d.pages = append(d.pages, p)
	d.pageSizes = append(d.pageSizes, [4]backend.Fl{left, top, right, bottom})
	return p
}

func (d *vxRecDoc) CreateAnchors(anchors [][]backend.Anchor) {
	d.anchors = anchors
	d.anchorCalls++
}
func (d *vxRecDoc) SetAttachments(as []backend.Attachment)        {}
func (d *vxRecDoc) EmbedFile(fileID string, a backend.Attachment) {}
func (d *vxRecDoc) SetTitle(title string)                         { d.title = title }
func (d *vxRecDoc) SetDescription(description string)             { d.description = description }
func (d *vxRecDoc) SetCreator(creator string)                     {}
func (d *vxRecDoc) SetAuthors(authors []string)                   { d.authors = authors }
func (d *vxRecDoc) SetKeywords(keywords []string)                 { d.keywords = keywords }
func (d *vxRecDoc) SetProducer(producer string)                   {}
func (d *vxRecDoc) SetDateCreation(t time.Time)                   {}
func (d *vxRecDoc) SetDateModification(t time.Time)               {}
func (d *vxRecDoc) SetBookmarks(root []backend.BookmarkNode)      { d.bookmarks++ }

// Render + Write on a recording backend: one AddPage per laid-out page, every internal link
// emitted names an anchor that CreateAnchors defines exactly once, on the page of the first
// element with that id; links to missing anchors are dropped, external links kept; the
// title and author metadata are forwarded unchanged; paints and clips follow a path.
func VxH_C14_write() {
	ids := []string{"A", "B"}
	targets := []string{"#A", "#B", "#missing", "http://e.example/x"}
	// three sections; the second and third may start a new page; ids may repeat
	id := make([]int, 3)
	brk := make([]bool, 3)
	for i := range id {
		nid := 3 // 2: no id
		if i == 2 && vx.Tier() == 0 {
			nid = 2
		}
		id[i] = vx.Choose("id-"+string(rune('0'+i)), nid)
		if i == 2 && vx.Tier() == 0 && id[i] == 1 {
			id[i] = 2 // quick: A or none
		}
		if i > 0 {
			brk[i] = vx.Choose("break-"+string(rune('0'+i)), 2) == 1
		}
	}
	t0 := vx.Choose("link0", len(targets))
	t1 := vx.Choose("link1", 2+2*vx.Tier())
	if vx.Tier() == 0 {
		t1 *= 2 // quick: #A or #missing
	}
	zoom := pr.Fl(vx.F32("zoom"))
	vx.Assume(vx.And(zoom >= 0.25, zoom <= 4))
	css := "@page{size:100px 100px;margin:0} html,body{margin:0} section,a{display:block;height:10px} head{display:none} "
	body := ""
	for i := range id {
		attr := ""
		if id[i] < 2 {
			attr = " id=\"" + ids[id[i]] + "\""
		}
		style := ""
		if brk[i] {
			style = " style=\"break-before:page\""
		}
		inner := ""
		if i == 0 {
			inner = "<a href=\"" + targets[t0] + "\"></a>"
		}
		if i == 2 {
			inner = "<a href=\"" + targets[t1] + "\"></a>"
		}
		body += "<section" + attr + style + ">" + inner + "</section>"
	}
	src := "<html><head><title>The Title</title><meta name=\"author\" content=\"An Author\"><style>" + css + "</style></head><body>" + body + "</body></html>"
	doc, err := tree.NewHTML(utils.InputString(src), "", nil, "")
	if err != nil {
		panic(err)
	}
	rendered := Render(doc, nil, false, nil)
	vx.Reach("rendered")
	rec := &vxRecDoc{}
	rendered.Write(rec, zoom, nil)
	vx.Reach("written")
	// expected pages of the sections
	pageOf := make([]int, 3)
	pg := 0
	for i := range id {
		if brk[i] {
			pg++
		}
		pageOf[i] = pg
	}
	nPages := pg + 1
	vx.Assert("one-AddPage-per-page", len(rec.pages) == nPages && len(rendered.Pages) == nPages)
	vx.Assert("CreateAnchors-once", rec.anchorCalls == 1 && len(rec.anchors) == nPages)
	// anchors: first element with the id
	firstPage := map[string]int{}
	for i := range id {
		if id[i] < 2 {
			if _, ok := firstPage[ids[id[i]]]; !ok {
				firstPage[ids[id[i]]] = pageOf[i]
			}
		}
	}
	seen := map[string]int{}
	for p, as := range rec.anchors {
		for _, a := range as {
			seen[a.Name]++
			want, ok := firstPage[a.Name]
			vx.Assert("anchor-on-page-of-first-element:"+a.Name, ok && want == p)
			vx.Assert("anchor-coordinates-finite:"+a.Name, vx.And(vx.Finite(float64(a.X)), vx.Finite(float64(a.Y))))
		}
	}
	for name := range firstPage {
		vx.Assert("anchor-defined-exactly-once:"+name, seen[name] == 1)
	}
	vx.Assert("no-unknown-anchor", len(seen) == len(firstPage))
	// links
	check := func(lbl string, target string, page int) {
		if page >= len(rec.pages) {
			return
		}
		p := rec.pages[page]
		switch {
		case target[0] != '#':
			vx.Assert("external-link-kept:"+lbl, vxHas(p.external, target))
		case firstPage[target[1:]] > 0 || vxKey(firstPage, target[1:]):
			vx.Assert("internal-link-emitted:"+lbl, vxHas(p.internal, target[1:]))
		default:
			vx.Reach("dangling-link")
			for _, q := range rec.pages {
				vx.Assert("dangling-link-dropped:"+lbl, !vxHas(q.internal, target[1:]))
			}
		}
	}
	check("0", targets[t0], pageOf[0])
	check("1", targets[t1], pageOf[2])
	total := 0
	for _, p := range rec.pages {
		total += len(p.internal) + len(p.external)
		for _, name := range p.internal {
			vx.Assert("internal-link-names-a-defined-anchor", seen[name] == 1)
		}
		for _, r := range p.rects {
			vx.Assert("link-rectangle-finite", vx.And(vx.And(vx.Finite(float64(r[0])), vx.Finite(float64(r[1]))), vx.And(vx.Finite(float64(r[2])), vx.Finite(float64(r[3])))))
		}
		vx.Assert("paint-and-clip-follow-a-path", len(*p.protocol) == 0)
		vx.Assert("page-boxes-set", p.boxes == 3)
	}
	vx.Assert("no-extra-link", total <= 2)
	for _, s := range rec.pageSizes {
		vx.Assert("page-size", vx.And(vx.ApproxEq(float64(s[2]), 100), vx.ApproxEq(float64(s[3]), 100)))
	}
	vx.Assert("title-forwarded", rec.title == "The Title")
	vx.Assert("author-forwarded", len(rec.authors) == 1 && rec.authors[0] == "An Author")
	vx.Assert("bookmarks-set-once", rec.bookmarks == 1)
}

func vxHas(l []string, s string) bool {
	for _, x := range l {
		if x == s {
			return true
		}
	}
	return false
}

func vxKey(m map[string]int, k string) bool {
	_, ok := m[k]
	return ok
}
