//go:build verif

package document

import (
	pr "github.com/benoitkugler/webrender/css/properties"
	"github.com/benoitkugler/webrender/html/layout"
	"github.com/benoitkugler/webrender/html/tree"
	"github.com/benoitkugler/webrender/text"
	"github.com/benoitkugler/webrender/text/hyphen"
	"github.com/benoitkugler/webrender/utils"
	"github.com/benoitkugler/webrender/vx"
)

// degenerate boxes (zero width or height) with a background, a clipping overflow, borders of
// every style and rounded corners: paints and clips still follow a path, numbers are finite.
func VxH_C14_zero_size_boxes() {
	styles := []string{"solid", "dashed", "dotted", "double", "groove", "inset"}
	bs := styles[vx.Choose("border-style", len(styles))]
	overflow := []string{"visible", "hidden"}[vx.Choose("overflow", 2)]
	radius := []string{"0", "5px"}[vx.Choose("radius", 2)]
	sides := []string{"border:4px " + bs + " rgb(2,2,0);", "border-top:4px " + bs + " rgb(2,2,0);", ""}[vx.Choose("border", 3)]
	// concrete sizes: symbolic ones send the dash computations of clipBorderSegment into nonlinear
	// queries that z3 does not finish
	sizes := []pr.Float{0, 3, 10}
	W := sizes[vx.Choose("width", len(sizes))]
	H := sizes[vx.Choose("height", len(sizes))]
	css := "@page{size:200px 200px;margin:0} html,body{margin:0} head{display:none} " +
		"section{display:block;background-color:rgb(2,1,0);overflow:" + overflow + ";border-radius:" + radius + ";" + sides + "} "
	src := "<html><head><style>" + css + "</style></head><body><section></section></body></html>"
	doc, err := tree.NewHTML(utils.InputString(src), "", nil, "")
	if err != nil {
		panic(err)
	}
	D := func(p pr.KnownProp, v pr.DeclaredValue) tree.VxDecl { return tree.VxDecl{Prop: p, Value: v} }
	px := func(v pr.Float) pr.DimOrS { return pr.Dimension{Value: v, Unit: pr.Px}.ToValue() }
	sheet := tree.VxSheet(tree.VxRule{Tag: "section", Decls: []tree.VxDecl{D(pr.PWidth, px(W)), D(pr.PHeight, px(H))}})
	pages := layout.Layout(doc, []tree.CSS{sheet}, false, nil)
	vx.Reach("laid-out")
	if (bs == "dashed" || bs == "dotted") && W < 10 {
		// a dashed / dotted side shorter than a few dashes
		vx.Reach("region:dashed-border-shorter-than-its-dashes")
	}
	canvas := vxNewCanvas()
	ctx := drawContext{
		dst:               canvas,
		hyphenCache:       make(map[text.HyphenDictKey]hyphen.Hyphener),
		strutLayoutsCache: make(map[text.StrutLayoutKey][2]pr.Float),
	}
	ctx.drawPage(pages[0])
	vx.Reach("drawn")
	vx.ObserveString("protocol-errors", join(*canvas.protocol))
	vx.Assert("numbers-finite-and-paths-before-paints", len(*canvas.protocol) == 0)
}
