//go:build verif

package document

import (
	"github.com/benoitkugler/webrender/backend"
	"github.com/benoitkugler/webrender/vx"
)

func vxAnchorsEq(a, b [][]backend.Anchor) bool {
	if len(a) != len(b) {
		return false
	}
	for i := range a {
		if len(a[i]) != len(b[i]) {
			return false
		}
		for j := range a[i] {
			if a[i][j] != b[i][j] {
				return false
			}
		}
	}
	return true
}

// the anchors handed to the backend do not depend on map iteration order.
func VxH_C15_anchor_order() {
	d := Document{Pages: []Page{{anchors: anchors{}}, {anchors: anchors{}}}}
	n := vx.Choose("anchors-on-first-page", 3) + 1
	for k := 0; k < n; k++ {
		d.Pages[0].anchors[string(rune('a'+k))] = [2]fl{fl(k), 0}
	}
	d.Pages[1].anchors["z"] = [2]fl{9, 9}
	d.Pages[1].anchors["a"] = [2]fl{8, 8}
	runs := 2
	if !vx.Symbolic() {
		runs = 40 // natively Go randomises each range statement
	}
	vx.MapOrder(true)
	_, first := d.resolveLinks()
	same := true
	for i := 1; i < runs; i++ {
		_, again := d.resolveLinks()
		if !vxAnchorsEq(first, again) {
			same = false
		}
	}
	vx.MapOrder(false)
	vx.Reach("compared")
	vx.Assert("anchors-independent-of-map-order", same)
}
