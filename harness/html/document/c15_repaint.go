//go:build verif

package document

import (
	pr "github.com/benoitkugler/webrender/css/properties"
	"github.com/benoitkugler/webrender/html/layout"
	"github.com/benoitkugler/webrender/html/tree"
	"github.com/benoitkugler/webrender/text"
	"github.com/benoitkugler/webrender/text/hyphen"
	"github.com/benoitkugler/webrender/utils"
	"github.com/benoitkugler/webrender/vx"
)

// painting a laid-out page is repeatable whatever the page decorations: bleed, crop / cross
// marks, page and root backgrounds.
func VxH_C15_repaint_page() {
	marks := []string{"none", "crop", "cross", "crop cross"}[vx.Choose("marks", 4)]
	bleed := []string{"0", "10px"}[vx.Choose("bleed", 2)]
	bg := []string{"", "background-color:rgb(0,1,0);"}[vx.Choose("page-background", 2)]
	css := "@page{size:100px 100px;margin:10px;bleed:" + bleed + ";marks:" + marks + ";" + bg + "} html{background-color:rgb(1,1,0)} head{display:none} " +
		"body{margin:0} section{display:block;height:10px;background-color:rgb(2,1,0)} "
	src := "<html><head><style>" + css + "</style></head><body><section></section></body></html>"
	doc, err := tree.NewHTML(utils.InputString(src), "", nil, "")
	if err != nil {
		panic(err)
	}
	pages := layout.Layout(doc, nil, false, nil)
	vx.Reach("laid-out")
	if marks != "none" && bleed != "0" {
		// the marks are an SVG image: the SVG renderer ends every container node with a Paint
		vx.Reach("region:svg-image-painted")
	}
	var logs [3][]string
	var calls [3]int
	clean := true
	for i := range logs {
		canvas := vxNewCanvas()
		ctx := drawContext{
			dst:               canvas,
			hyphenCache:       make(map[text.HyphenDictKey]hyphen.Hyphener),
			strutLayoutsCache: make(map[text.StrutLayoutKey][2]pr.Float),
		}
		ctx.drawPage(pages[0])
		logs[i] = *canvas.log
		if i == 0 {
			vx.ObserveString("protocol-errors", join(*canvas.protocol))
		}
		clean = clean && len(*canvas.protocol) == 0
		calls[i] = *canvas.calls
	}
	vx.Reach("drawn")
	vx.Assert("second-paint-identical", vxStrsEq(logs[0], logs[1]) && calls[0] == calls[1])
	vx.Assert("third-paint-identical", vxStrsEq(logs[0], logs[2]) && calls[0] == calls[2])
	vx.Assert("numbers-finite-and-paths-before-paints", clean)
}
