//go:build verif

package document

import (
	pr "github.com/benoitkugler/webrender/css/properties"
	"github.com/benoitkugler/webrender/html/layout"
	"github.com/benoitkugler/webrender/html/tree"
	"github.com/benoitkugler/webrender/text"
	"github.com/benoitkugler/webrender/text/hyphen"
	"github.com/benoitkugler/webrender/utils"
	"github.com/benoitkugler/webrender/vx"
)

// the root of the painting order: page background, canvas background (propagated from the
// root element or body), page border, then the content of the root stacking context.
func VxH_C16_page_order() {
	pageBg := vx.Choose("page-background", 2) == 1
	pageBorder := vx.Choose("page-border", 2) == 1
	canvasFrom := vx.Choose("canvas-background-from", 3) // 0: none, 1: html, 2: body
	// colours: element 5 (aside) stands for the page box, 0 for html, 1 for body, 2 for section
	css := "@page{size:100px 100px;margin:10px;"
	if pageBg {
		css += "background-color:rgb(5,1,0);"
	}
	if pageBorder {
		css += "border:5px solid rgb(5,2,0);"
	}
	css += "} head{display:none} body{margin:0} section{display:block;height:10px;background-color:rgb(2,1,0)} "
	switch canvasFrom {
	case 1:
		css += "html{background-color:rgb(0,1,0)} "
	case 2:
		css += "body{background-color:rgb(1,1,0)} "
	}
	src := "<html><head><style>" + css + "</style></head><body><section></section></body></html>"
	doc, err := tree.NewHTML(utils.InputString(src), "", nil, "")
	if err != nil {
		panic(err)
	}
	pages := layout.Layout(doc, nil, false, nil)
	vx.Reach("laid-out")
	canvas := vxNewCanvas()
	ctx := drawContext{
		dst:               canvas,
		hyphenCache:       make(map[text.HyphenDictKey]hyphen.Hyphener),
		strutLayoutsCache: make(map[text.StrutLayoutKey][2]pr.Float),
	}
	ctx.drawPage(pages[0])
	vx.Reach("drawn")
	var want []string
	if pageBg {
		want = append(want, "bg:aside")
	}
	switch canvasFrom {
	case 1:
		want = append(want, "bg:html")
	case 2:
		want = append(want, "bg:body")
	}
	if pageBorder {
		want = append(want, "bd:aside")
	}
	want = append(want, "bg:section")
	vx.ObserveString("got", join(*canvas.log))
	vx.ObserveString("want", join(want))
	vx.Assert("page-background-canvas-border-content", vxStrsEq(*canvas.log, want))
}
