//go:build verif

package document

import (
	"github.com/benoitkugler/webrender/backend"
	"github.com/benoitkugler/webrender/css/parser"
	pr "github.com/benoitkugler/webrender/css/properties"
	"github.com/benoitkugler/webrender/html/layout"
	"github.com/benoitkugler/webrender/html/tree"
	"github.com/benoitkugler/webrender/matrix"
	"github.com/benoitkugler/webrender/text"
	"github.com/benoitkugler/webrender/text/hyphen"
	"github.com/benoitkugler/webrender/utils"
	"github.com/benoitkugler/webrender/vx"
)

// a recording canvas: one token per Paint, named after the colour in use; opacity groups
// are spliced in where they are composited.
type vxCanvas struct {
	log          *[]string
	fill, stroke parser.RGBA
	pathOpen     bool
	protocol     *[]string // protocol errors (paint or clip without a path)
	calls        *int      // number of drawing calls (paints, images, gradients, patterns), shared with the groups
	xf           *[]matrix.Transform // arguments of Transform, shared with the groups
}

func vxNewCanvas() *vxCanvas {
	return &vxCanvas{log: new([]string), protocol: new([]string), calls: new(int), xf: new([]matrix.Transform)}
}

func (c *vxCanvas) emit(s string) {
	if n := len(*c.log); n > 0 && (*c.log)[n-1] == s && s != "G[" && s != "]" {
		return
	}
	*c.log = append(*c.log, s)
}

func (c *vxCanvas) GetBoundingBox() (left, top, right, bottom backend.Fl) { return 0, 0, 1000, 1000 }
func (c *vxCanvas) SetBoundingBox(left, top, right, bottom backend.Fl)    {}
func (c *vxCanvas) OnNewStack(f func()) {
	fill, stroke := c.fill, c.stroke
	f()
	c.fill, c.stroke = fill, stroke
}
func (c *vxCanvas) State() backend.GraphicState { return c }
func (c *vxCanvas) NewGroup(x, y, width, height backend.Fl) backend.Canvas {
	*c.calls++
	return &vxCanvas{log: new([]string), protocol: c.protocol, calls: c.calls, xf: c.xf}
}

func (c *vxCanvas) DrawWithOpacity(opacity backend.Fl, group backend.Canvas) {
	*c.log = append(*c.log, "G[")
	*c.log = append(*c.log, *group.(*vxCanvas).log...)
	*c.log = append(*c.log, "]")
}

func vxColorName(col parser.RGBA) string {
	el := int(col.R*255 + 0.5)
	role := int(col.G*255 + 0.5)
	names := []string{"html", "body", "section", "article", "nav", "aside"}
	roles := []string{"?", "bg", "bd", "ol"}
	if el < len(names) && role < len(roles) {
		return roles[role] + ":" + names[el]
	}
	return "other"
}

func (c *vxCanvas) Paint(op backend.PaintOp) {
	*c.calls++
	if !c.pathOpen {
		*c.protocol = append(*c.protocol, "paint-without-path")
	}
	c.pathOpen = false
	if op&backend.Stroke != 0 && op&(backend.FillEvenOdd|backend.FillNonZero) == 0 {
		c.emit(vxColorName(c.stroke))
	} else {
		c.emit(vxColorName(c.fill))
	}
}

// finite records a protocol error when a number handed to the backend is NaN or infinite
func (c *vxCanvas) finite(where string, vs ...backend.Fl) {
	for _, v := range vs {
		if !vx.Finite(float64(v)) {
			*c.protocol = append(*c.protocol, "non-finite:"+where)
		}
	}
}
func (c *vxCanvas) Rectangle(x, y, width, height backend.Fl) {
	c.finite("Rectangle", x, y, width, height)
	c.pathOpen = true
}
func (c *vxCanvas) MoveTo(x, y backend.Fl) { c.finite("MoveTo", x, y); c.pathOpen = true }
func (c *vxCanvas) LineTo(x, y backend.Fl) { c.finite("LineTo", x, y); c.pathOpen = true }
func (c *vxCanvas) CubicTo(x1, y1, x2, y2, x3, y3 backend.Fl) {
	c.finite("CubicTo", x1, y1, x2, y2, x3, y3)
	c.pathOpen = true
}
func (c *vxCanvas) ClosePath()                                                   {}
func (c *vxCanvas) AddFont(font backend.Font, content []byte) *backend.FontChars { return nil }
func (c *vxCanvas) DrawText(texts []backend.TextDrawing)                         {}
func (c *vxCanvas) DrawRasterImage(image backend.RasterImage, width, height backend.Fl) {
	c.finite("DrawRasterImage", width, height)
}
func (c *vxCanvas) DrawGradient(gradient backend.GradientLayout, width, height backend.Fl) {
	c.finite("DrawGradient", width, height)
	c.emit("gradient")
}

func (c *vxCanvas) SetAlphaMask(mask backend.Canvas) {}
func (c *vxCanvas) Clip(evenOdd bool) {
	if !c.pathOpen {
		*c.protocol = append(*c.protocol, "clip-without-path")
	}
	c.pathOpen = false
}
func (c *vxCanvas) SetAlpha(alpha backend.Fl, stroke bool) { c.finite("SetAlpha", alpha) }
func (c *vxCanvas) SetColorRgba(color parser.RGBA, stroke bool) {
	if stroke {
		c.stroke = color
	} else {
		c.fill = color
	}
}

func (c *vxCanvas) SetColorPattern(pattern backend.Canvas, contentWidth, contentHeight backend.Fl, mat matrix.Transform, stroke bool) {
}
func (c *vxCanvas) SetBlendingMode(mode string)   {}
func (c *vxCanvas) SetLineWidth(width backend.Fl) {}
func (c *vxCanvas) SetDash(dashes []backend.Fl, offset backend.Fl) {
	c.finite("SetDash", offset)
	c.finite("SetDash", dashes...)
}
func (c *vxCanvas) SetStrokeOptions(backend.StrokeOptions) {}
func (c *vxCanvas) GetTransform() matrix.Transform         { return matrix.Identity() }
func (c *vxCanvas) Transform(mt matrix.Transform) {
	if c.xf != nil {
		*c.xf = append(*c.xf, mt)
	}
}
func (c *vxCanvas) SetTextPaint(op backend.PaintOp)        {}

type vxPNode struct {
	tag                                    string
	kids                                   []*vxPNode
	positioned, hasZ, floated, translucent bool
	z                                      int
}

func (n *vxPNode) isContext() bool { return n.positioned || n.translucent || n.floated }

// CSS 2.1 Appendix E on the model tree
type vxPainter struct{ out []string }

// real: creates a stacking context of its own (z-index on a positioned box, opacity); the
// other "contexts" (positioned with z-index auto, floats) are only painted atomically: the
// positioned and real contexts found below them belong to the enclosing real context.
func (n *vxPNode) real() bool { return (n.positioned && n.hasZ) || n.translucent }

func (p *vxPainter) collect(n *vxPNode, plain *[]*vxPNode, ctxs *[]*vxPNode) {
	for _, k := range n.kids {
		if k.isContext() {
			*ctxs = append(*ctxs, k)
			if !k.real() {
				p.bubble(k, ctxs)
			}
		} else {
			*plain = append(*plain, k)
			p.collect(k, plain, ctxs)
		}
	}
}

func (p *vxPainter) bubble(k *vxPNode, ctxs *[]*vxPNode) {
	for _, c := range k.kids {
		switch {
		case c.positioned || c.translucent:
			*ctxs = append(*ctxs, c)
			if !c.real() {
				p.bubble(c, ctxs)
			}
		case c.floated: // stays inside k
		default:
			p.bubble(c, ctxs)
		}
	}
}

func (p *vxPainter) paint(n *vxPNode) {
	if n.translucent {
		p.out = append(p.out, "G[")
	}
	if n.tag != "html" { // the root background is painted on the canvas by the page
		p.out = append(p.out, "bg:"+n.tag, "bd:"+n.tag)
	}
	var plain, ctxs []*vxPNode
	p.collect(n, &plain, &ctxs)
	if n.isContext() && !n.real() {
		// only its floats are painted inside it
		var own []*vxPNode
		for _, c := range ctxs {
			if c.floated && !c.positioned && !c.translucent {
				own = append(own, c)
			}
		}
		ctxs = own
	}
	layer := func(c *vxPNode) int { // -1 negative, 0 zero/auto, 1 positive, 2 float
		switch {
		case c.positioned && c.hasZ && c.z < 0:
			return -1
		case c.positioned && c.hasZ && c.z > 0:
			return 1
		case c.positioned || c.translucent:
			return 0
		default:
			return 2
		}
	}
	sorted := func(l int) []*vxPNode {
		var out []*vxPNode
		for _, c := range ctxs {
			if layer(c) == l {
				out = append(out, c)
			}
		}
		for i := 1; i < len(out); i++ {
			for j := i; j > 0 && out[j].z < out[j-1].z; j-- {
				out[j], out[j-1] = out[j-1], out[j]
			}
		}
		return out
	}
	for _, c := range sorted(-1) {
		p.paint(c)
	}
	for _, b := range plain {
		p.out = append(p.out, "bg:"+b.tag, "bd:"+b.tag)
	}
	for _, c := range sorted(2) {
		p.paint(c)
	}
	for _, c := range ctxs { // tree order
		if layer(c) == 0 {
			p.paint(c)
		}
	}
	for _, c := range sorted(1) {
		p.paint(c)
	}
	if n.tag != "html" {
		p.out = append(p.out, "ol:"+n.tag)
	}
	for _, b := range plain {
		p.out = append(p.out, "ol:"+b.tag)
	}
	if n.translucent {
		p.out = append(p.out, "]")
	}
}

// paint order of drawStackingContext: backgrounds, borders and outlines of html > body >
// (section, article > nav, aside), each with its own colours, against Appendix E.
func VxH_C16_paint() {
	html := &vxPNode{tag: "html"}
	body := &vxPNode{tag: "body"}
	section, article, nav, aside := &vxPNode{tag: "section"}, &vxPNode{tag: "article"}, &vxPNode{tag: "nav"}, &vxPNode{tag: "aside"}
	html.kids = []*vxPNode{body}
	body.kids = []*vxPNode{section, article, aside}
	article.kids = []*vxPNode{nav}
	names := []string{"html", "body", "section", "article", "nav", "aside"}
	itoa := func(i int) string { return string(rune('0' + i)) }
	css := "html{background-color: rgb(0,1,0)} "
	for i, nm := range names[1:] {
		e := itoa(i + 1)
		css += nm + "{display:block;height:10px;width:50px;background-color: rgb(" + e + ",1,0);border: 1px solid rgb(" + e + ",2,0);outline: 1px solid rgb(" + e + ",3,0)} "
	}
	choose := func(n *vxPNode, zs []int, float, opacity bool) {
		decl := ""
		if vx.Choose("relative-"+n.tag, 2) == 1 {
			n.positioned = true
			decl += "position:relative;"
		}
		if zi := vx.Choose("z-"+n.tag, len(zs)+1); zi > 0 {
			n.hasZ, n.z = true, zs[zi-1]
			decl += "z-index:" + []string{"-1", "0", "1"}[n.z+1] + ";"
		}
		if float && vx.Choose("float-"+n.tag, 2) == 1 {
			n.floated = true
			decl += "float:left;"
		}
		if opacity && vx.Choose("opacity-"+n.tag, 2) == 1 {
			n.translucent = true
			decl += "opacity:0.5;"
		}
		if n.translucent && n.hasZ && !n.positioned && n.z != 0 {
			vx.Reach("region:z-index-on-static-stacking-context")
		}
		css += n.tag + "{" + decl + "} "
	}
	choose(section, []int{-1, 1}, false, true)
	choose(article, []int{1}, true, false)
	choose(aside, []int{-1, 0, 1}, false, vx.Tier() > 0)
	src := "<html><head><style>head{display:none} " + css + "</style></head><body><section></section><article><nav></nav></article><aside></aside></body></html>"
	doc, err := tree.NewHTML(utils.InputString(src), "", nil, "")
	if err != nil {
		panic(err)
	}
	pages := layout.Layout(doc, nil, false, nil)
	vx.Reach("laid-out")
	canvas := vxNewCanvas()
	ctx := drawContext{
		dst:               canvas,
		hyphenCache:       make(map[text.HyphenDictKey]hyphen.Hyphener),
		strutLayoutsCache: make(map[text.StrutLayoutKey][2]pr.Float),
	}
	ctx.drawPage(pages[0])
	vx.Reach("drawn")
	// painting is repeatable: a second paint of the same laid-out page gives the same calls (C15)
	canvas2 := vxNewCanvas()
	ctx2 := drawContext{
		dst:               canvas2,
		hyphenCache:       make(map[text.HyphenDictKey]hyphen.Hyphener),
		strutLayoutsCache: make(map[text.StrutLayoutKey][2]pr.Float),
	}
	ctx2.drawPage(pages[0])
	vx.Assert("second-paint-identical", vxStrsEq(*canvas.log, *canvas2.log))
	vx.Assert("paint-and-clip-follow-a-path", len(*canvas.protocol) == 0)
	p := &vxPainter{out: []string{"bg:html"}}
	p.paint(html)
	got := *canvas.log
	vx.ObserveString("got", join(got))
	vx.ObserveString("want", join(p.out))
	vx.Assert("paint-order", vxStrsEq(got, p.out))
}

func join(l []string) string {
	s := ""
	for _, x := range l {
		s += x + " "
	}
	return s
}

// a positioned box with z-index: auto holding several positioned descendants: they are painted
// after it, in tree order ("treat the element as if it created a new stacking context, but
// any positioned descendants ... are part of the parent stacking context").
func VxH_C16_nested_order() {
	html := &vxPNode{tag: "html"}
	body := &vxPNode{tag: "body"}
	section, article, nav, aside := &vxPNode{tag: "section"}, &vxPNode{tag: "article"}, &vxPNode{tag: "nav"}, &vxPNode{tag: "aside"}
	html.kids = []*vxPNode{body}
	body.kids = []*vxPNode{section}
	section.kids = []*vxPNode{article, nav, aside}
	names := []string{"html", "body", "section", "article", "nav", "aside"}
	itoa := func(i int) string { return string(rune('0' + i)) }
	css := "html{background-color: rgb(0,1,0)} "
	for i, nm := range names[1:] {
		e := itoa(i + 1)
		css += nm + "{display:block;height:10px;width:50px;background-color: rgb(" + e + ",1,0);border: 1px solid rgb(" + e + ",2,0);outline: 1px solid rgb(" + e + ",3,0)} "
	}
	if vx.Choose("wrapper-positioned", 2) == 1 {
		section.positioned = true
		css += "section{position:relative} "
	}
	for _, n := range []*vxPNode{article, nav, aside} {
		switch vx.Choose("child-"+n.tag, 3) {
		case 1:
			n.positioned = true
			css += n.tag + "{position:absolute;top:0;left:0} "
		case 2:
			n.positioned, n.hasZ, n.z = true, true, 0
			css += n.tag + "{position:absolute;top:0;left:0;z-index:0} "
		}
	}
	src := "<html><head><style>head{display:none} " + css + "</style></head><body><section><article></article><nav></nav><aside></aside></section></body></html>"
	doc, err := tree.NewHTML(utils.InputString(src), "", nil, "")
	if err != nil {
		panic(err)
	}
	pages := layout.Layout(doc, nil, false, nil)
	vx.Reach("laid-out")
	canvas := vxNewCanvas()
	ctx := drawContext{
		dst:               canvas,
		hyphenCache:       make(map[text.HyphenDictKey]hyphen.Hyphener),
		strutLayoutsCache: make(map[text.StrutLayoutKey][2]pr.Float),
	}
	ctx.drawPage(pages[0])
	vx.Reach("drawn")
	p := &vxPainter{out: []string{"bg:html"}}
	p.paint(html)
	vx.ObserveString("got", join(*canvas.log))
	vx.ObserveString("want", join(p.out))
	vx.Assert("paint-order", vxStrsEq(*canvas.log, p.out))
}
