//go:build verif

package document

import (
	pr "github.com/benoitkugler/webrender/css/properties"
	"github.com/benoitkugler/webrender/html/layout"
	"github.com/benoitkugler/webrender/html/tree"
	"github.com/benoitkugler/webrender/utils"
	"github.com/benoitkugler/webrender/vx"
)

func vxTags(cs []StackingContext) []string {
	var out []string
	for _, c := range cs {
		out = append(out, c.box.Box().ElementTag())
	}
	return out
}

func vxStrsEq(a, b []string) bool {
	if len(a) != len(b) {
		return false
	}
	for i := range a {
		if a[i] != b[i] {
			return false
		}
	}
	return true
}

// CSS 2.1 Appendix E: how the children of a stacking context are dispatched into layers.
func VxH_C16_layers() {
	doc, err := tree.NewHTML(utils.InputString("<html><body><section></section><article></article><aside></aside></body></html>"), "", nil, "")
	if err != nil {
		panic(err)
	}
	D := func(p pr.KnownProp, v pr.DeclaredValue) tree.VxDecl { return tree.VxDecl{Prop: p, Value: v} }
	px := func(v pr.Float) pr.DimOrS { return pr.Dimension{Value: v, Unit: pr.Px}.ToValue() }
	tags := []string{"section", "article", "aside"}
	type kind struct {
		positioned, hasZ, floated, translucent bool
		z                                      int
	}
	var kinds []kind
	var rules []tree.VxRule
	for i, tag := range tags {
		id := string(rune('0' + i))
		var k kind
		decls := []tree.VxDecl{D(pr.PDisplay, pr.Display{"block", "flow"}), D(pr.PHeight, px(10)), D(pr.PWidth, px(50))}
		if vx.Bool("relative" + id) {
			k.positioned = true
			decls = append(decls, D(pr.PPosition, pr.BoolString{String: "relative"}))
		}
		if vx.Bool("z" + id) {
			k.hasZ = true
			k.z = vx.Choose("zindex"+id, 3) - 1
			decls = append(decls, D(pr.PZIndex, pr.IntString{Int: k.z}))
		}
		if i == 1 && vx.Bool("float"+id) {
			k.floated = true
			decls = append(decls, D(pr.PFloat, pr.String("left")))
		}
		if i != 1 && vx.Bool("opacity"+id) {
			k.translucent = true
			decls = append(decls, D(pr.POpacity, pr.Float(0.5)))
		}
		if k.translucent && k.hasZ && !k.positioned && k.z != 0 {
			// z-index on a non-positioned box that creates a stacking context (opacity)
			vx.Reach("region:z-index-on-static-stacking-context")
		}
		kinds = append(kinds, k)
		rules = append(rules, tree.VxRule{Tag: tag, Decls: decls})
	}
	pages := layout.Layout(doc, []tree.CSS{tree.VxSheet(rules...)}, false, nil)
	vx.Reach("laid-out")
	pageCtx := NewStackingContextFromPage(pages[0])
	vx.Assert("root-context", len(pageCtx.zeroZContexts) == 1 && pageCtx.zeroZContexts[0].box.Box().ElementTag() == "html")
	ctx := pageCtx.zeroZContexts[0]
	// reference classification
	var neg, zero, pos, floats, blocks []string
	type zt struct {
		z   int
		tag string
	}
	var negs, poss []zt
	for i, k := range kinds {
		tag := tags[i]
		switch {
		case k.positioned && k.hasZ:
			switch {
			case k.z < 0:
				negs = append(negs, zt{k.z, tag})
			case k.z == 0:
				zero = append(zero, tag)
			default:
				poss = append(poss, zt{k.z, tag})
			}
		case k.translucent: // a stacking context painted on layer 0 (z-index does not apply to it)
			zero = append(zero, tag)
		case k.positioned: // z-index auto
			zero = append(zero, tag)
		case k.floated:
			floats = append(floats, tag)
		default:
			blocks = append(blocks, tag)
		}
	}
	stable := func(l []zt) []string {
		for i := 1; i < len(l); i++ {
			for j := i; j > 0 && l[j].z < l[j-1].z; j-- {
				l[j], l[j-1] = l[j-1], l[j]
			}
		}
		var out []string
		for _, x := range l {
			out = append(out, x.tag)
		}
		return out
	}
	neg, pos = stable(negs), stable(poss)
	vx.Assert("negative-z-layer", vxStrsEq(vxTags(ctx.negativeZContexts), neg))
	vx.Assert("zero-z-layer", vxStrsEq(vxTags(ctx.zeroZContexts), zero))
	vx.Assert("positive-z-layer", vxStrsEq(vxTags(ctx.positiveZContexts), pos))
	vx.Assert("float-layer", vxStrsEq(vxTags(ctx.floatContexts), floats))
	var gotBlocks []string
	for _, b := range ctx.blockLevelBoxes {
		if t := b.Box().ElementTag(); t != "body" {
			gotBlocks = append(gotBlocks, t)
		}
	}
	vx.Assert("block-layer", vxStrsEq(gotBlocks, blocks))
}
