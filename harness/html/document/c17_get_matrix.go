//go:build verif

package document

import (
	pr "github.com/benoitkugler/webrender/css/properties"
	bo "github.com/benoitkugler/webrender/html/boxes"
	"github.com/benoitkugler/webrender/vx"
)

// a computed style backed by a plain property map seeded with the initial values
type vxMStyle struct {
	pr.Properties
}

func (s *vxMStyle) Set(key pr.PropKey, value pr.CssProperty) { s.Properties[key.KnownProp] = value }
func (s *vxMStyle) Get(key pr.PropKey) pr.CssProperty        { return s.Properties[key.KnownProp] }
func (s *vxMStyle) Copy() pr.ElementStyle                    { return &vxMStyle{Properties: s.Properties.Copy()} }
func (s *vxMStyle) ParentStyle() pr.ElementStyle             { return nil }
func (s *vxMStyle) Variables() map[string]pr.RawTokens       { return nil }
func (s *vxMStyle) Specified() pr.SpecifiedAttributes        { return pr.SpecifiedAttributes{} }
func (s *vxMStyle) Cache() pr.TextRatioCache                 { return pr.NewTextRatioCache() }

// reference affine map (x, y) -> (a x + c y + e, b x + d y + f), composed by hand
type vxAff struct{ a, b, c, d, e, f fl }

// t after u : (t . u)(p) = t(u(p))
func (t vxAff) mul(u vxAff) vxAff {
	return vxAff{
		a: t.a*u.a + t.c*u.b, b: t.b*u.a + t.d*u.b,
		c: t.a*u.c + t.c*u.d, d: t.b*u.c + t.d*u.d,
		e: t.a*u.e + t.c*u.f + t.e, f: t.b*u.e + t.d*u.f + t.f,
	}
}

// one computed transform function with symbolic arguments, and its specification matrix
func vxMFunc(kind int, id string, bw, bh fl) (pr.SDimensions, vxAff) {
	d := func(v fl, u pr.Unit) pr.Dimension { return pr.Dimension{Value: pr.Float(v), Unit: u} }
	p, q := vx.F32(id+"p"), vx.F32(id+"q")
	switch kind {
	case 0: // translate(px, px)
		return pr.SDimensions{String: "translate", Dimensions: pr.Dimensions{d(p, pr.Px), d(q, pr.Px)}}, vxAff{1, 0, 0, 1, p, q}
	case 1: // translate(%, %) : of the border box
		return pr.SDimensions{String: "translate", Dimensions: pr.Dimensions{d(p, pr.Perc), d(q, pr.Perc)}}, vxAff{1, 0, 0, 1, bw * p / 100, bh * q / 100}
	case 2:
		return pr.SDimensions{String: "scale", Dimensions: pr.Dimensions{d(p, pr.Scalar), d(q, pr.Scalar)}}, vxAff{p, 0, 0, q, 0, 0}
	case 3:
		c, s := fl(vx.Cos(float64(p))), fl(vx.Sin(float64(p)))
		return pr.SDimensions{String: "rotate", Dimensions: pr.Dimensions{d(p, pr.Scalar)}}, vxAff{c, s, -s, c, 0, 0}
	case 4:
		tx, ty := fl(vx.Tan(float64(p))), fl(vx.Tan(float64(q)))
		return pr.SDimensions{String: "skew", Dimensions: pr.Dimensions{d(p, pr.Scalar), d(q, pr.Scalar)}}, vxAff{1, ty, tx, 1, 0, 0}
	default:
		r, s, t, u := vx.F32(id+"r"), vx.F32(id+"s"), vx.F32(id+"t"), vx.F32(id+"u")
		return pr.SDimensions{String: "matrix", Dimensions: pr.Dimensions{d(p, pr.Scalar), d(q, pr.Scalar), d(r, pr.Scalar), d(s, pr.Scalar), d(t, pr.Scalar), d(u, pr.Scalar)}}, vxAff{p, q, r, s, t, u}
	}
}

// getMatrix: a list of one or two computed transform functions on a block box of symbolic
// geometry, with a symbolic transform-origin (px or %): the matrix is
// T(origin) . f1 . f2 . T(-origin), origin relative to the border box; inline boxes and
// empty lists have no matrix.
func VxH_C17_get_matrix() {
	style := &vxMStyle{Properties: pr.InitialValues.Copy()}
	box := bo.NewBlockBox(style, nil, "", nil)
	f := &box.BoxFields
	px, py := vx.F32("position-x"), vx.F32("position-y")
	ml, mt_ := vx.F32("margin-left"), vx.F32("margin-top")
	w, h := vx.F32("width"), vx.F32("height")
	pl, pt, prr, pb := vx.F32("padding-left"), vx.F32("padding-top"), vx.F32("padding-right"), vx.F32("padding-bottom")
	bl, bt := vx.F32("border-left"), vx.F32("border-top")
	vx.Assume(vx.And(vx.And(w >= 0, h >= 0), vx.And(vx.And(pl >= 0, pt >= 0), vx.And(prr >= 0, pb >= 0))))
	vx.Assume(vx.And(bl >= 0, bt >= 0))
	f.PositionX, f.PositionY = pr.Float(px), pr.Float(py)
	f.MarginLeft, f.MarginTop = pr.Float(ml), pr.Float(mt_)
	f.MarginRight, f.MarginBottom = pr.Float(0), pr.Float(0)
	f.Width, f.Height = pr.Float(w), pr.Float(h)
	f.PaddingLeft, f.PaddingTop, f.PaddingRight, f.PaddingBottom = pr.Float(pl), pr.Float(pt), pr.Float(prr), pr.Float(pb)
	f.BorderLeftWidth, f.BorderTopWidth = pr.Float(bl), pr.Float(bt)
	f.BorderRightWidth, f.BorderBottomWidth = pr.Float(2), pr.Float(3)
	bw := pl + w + prr + bl + 2
	bh := pt + h + pb + bt + 3

	n := vx.Choose("functions", 3) // 0, 1 or 2 functions
	var list pr.Transforms
	ref := vxAff{1, 0, 0, 1, 0, 0}
	for i := 0; i < n; i++ {
		id := string(rune('f' + i))
		k := vx.Choose("kind-"+id, 6)
		fn, m := vxMFunc(k, id, bw, bh)
		list = append(list, fn)
		ref = ref.mul(m)
	}
	style.SetTransform(list)
	ox, oy := vx.F32("origin-x"), vx.F32("origin-y")
	var wantX, wantY fl
	if vx.Choose("origin-unit", 2) == 0 {
		style.SetTransformOrigin(pr.Point{{Value: pr.Float(ox), Unit: pr.Px}, {Value: pr.Float(oy), Unit: pr.Px}})
		wantX, wantY = px+ml+ox, py+mt_+oy
	} else {
		style.SetTransformOrigin(pr.Point{{Value: pr.Float(ox), Unit: pr.Perc}, {Value: pr.Float(oy), Unit: pr.Perc}})
		wantX, wantY = px+ml+bw*ox/100, py+mt_+bh*oy/100
	}

	got, ok := getMatrix(box)
	vx.Reach("computed")
	if n == 0 {
		vx.Assert("no-matrix-without-functions", !ok)
		return
	}
	vx.Assert("matrix-for-a-block", ok)
	want := vxAff{1, 0, 0, 1, wantX, wantY}.mul(ref).mul(vxAff{1, 0, 0, 1, -wantX, -wantY})
	eq := func(a, b fl) bool { return vx.RealEq(float64(a), float64(b)) }
	vx.Assert("matrix.A", eq(got.A, want.a))
	vx.Assert("matrix.B", eq(got.B, want.b))
	vx.Assert("matrix.C", eq(got.C, want.c))
	vx.Assert("matrix.D", eq(got.D, want.d))
	vx.Assert("matrix.E", eq(got.E, want.e))
	vx.Assert("matrix.F", eq(got.F, want.f))
	// the origin is a fixed point of every list without a translation
	if n == 1 && list[0].String != "translate" && list[0].String != "matrix" {
		x, y := got.Apply(wantX, wantY)
		vx.Assert("origin-fixed.x", eq(x, wantX))
		vx.Assert("origin-fixed.y", eq(y, wantY))
	}
	// an inline box with the same style has no matrix
	inl := bo.NewInlineBox(style, nil, "", nil)
	_, ok = getMatrix(inl)
	vx.Assert("no-matrix-on-inline-box", !ok)
}
