//go:build verif

package document

import (
	"math"

	pr "github.com/benoitkugler/webrender/css/properties"
	"github.com/benoitkugler/webrender/html/layout"
	"github.com/benoitkugler/webrender/html/tree"
	"github.com/benoitkugler/webrender/text"
	"github.com/benoitkugler/webrender/text/hyphen"
	"github.com/benoitkugler/webrender/utils"
	"github.com/benoitkugler/webrender/vx"
)

// from CSS source to the backend: a block of symbolic width with a `transform` declaration
// and a `transform-origin`; the painter calls Transform exactly once, with
// T(origin) . f1 . f2 . T(-origin) of CSS Transforms (origin relative to the border box).
func VxH_C17_painter_transform() {
	W := pr.Float(vx.F32("width"))
	vx.Assume(vx.And(W >= 10, W <= 80))
	w := fl(W)
	const h = fl(20)
	type tf struct {
		css string
		m   func() vxAff
	}
	s2 := fl(math.Sqrt(0.5))
	pool := []tf{
		{"translate(10px, 20px)", func() vxAff { return vxAff{1, 0, 0, 1, 10, 20} }},
		{"translate(50%, 10%)", func() vxAff { return vxAff{1, 0, 0, 1, w * 50 / 100, h * 10 / 100} }},
		{"scale(2, 3)", func() vxAff { return vxAff{2, 0, 0, 3, 0, 0} }},
		{"rotate(90deg)", func() vxAff { return vxAff{0, 1, -1, 0, 0, 0} }},
		{"rotate(-0.125turn)", func() vxAff { return vxAff{s2, -s2, s2, s2, 0, 0} }},
		{"skewX(45deg)", func() vxAff { return vxAff{1, 0, 1, 1, 0, 0} }},
		{"skewY(50grad)", func() vxAff { return vxAff{1, 1, 0, 1, 0, 0} }},
		{"matrix(1, 2, 3, 4, 5, 6)", func() vxAff { return vxAff{1, 2, 3, 4, 5, 6} }},
		{"translate(10px) scale(2)", func() vxAff { return vxAff{1, 0, 0, 1, 10, 0}.mul(vxAff{2, 0, 0, 2, 0, 0}) }},
		{"scale(2) translateY(10px)", func() vxAff { return vxAff{2, 0, 0, 2, 0, 0}.mul(vxAff{1, 0, 0, 1, 0, 10}) }},
		{"skewX(45deg) rotate(90deg) translate(0, 5px)", func() vxAff {
			return vxAff{1, 0, 1, 1, 0, 0}.mul(vxAff{0, 1, -1, 0, 0, 0}).mul(vxAff{1, 0, 0, 1, 0, 5})
		}},
	}
	origins := []struct {
		css string
		at  func() (fl, fl)
	}{
		{"", func() (fl, fl) { return w / 2, h / 2 }}, // initial value: 50% 50%
		{"transform-origin:0 0;", func() (fl, fl) { return 0, 0 }},
		{"transform-origin:10px 100%;", func() (fl, fl) { return 10, h }},
		{"transform-origin:right top;", func() (fl, fl) { return w, 0 }},
	}
	n := len(pool)
	if vx.Tier() == 0 {
		n = 9
	}
	t := pool[vx.Choose("transform", n)]
	o := origins[vx.Choose("origin", len(origins))]
	css := "@page{size:200px 200px;margin:10px} head{display:none} html,body{margin:0} " +
		"section{display:block;height:20px;background-color:rgb(2,1,0);transform:" + t.css + ";" + o.css + "} "
	src := "<html><head><style>" + css + "</style></head><body><section></section></body></html>"
	doc, err := tree.NewHTML(utils.InputString(src), "", nil, "")
	if err != nil {
		panic(err)
	}
	sheet := tree.VxSheet(tree.VxRule{Tag: "section", Decls: []tree.VxDecl{{Prop: pr.PWidth, Value: pr.Dimension{Value: W, Unit: pr.Px}.ToValue()}}})
	pages := layout.Layout(doc, []tree.CSS{sheet}, false, nil)
	vx.Reach("laid-out")
	canvas := vxNewCanvas()
	ctx := drawContext{
		dst:               canvas,
		hyphenCache:       make(map[text.HyphenDictKey]hyphen.Hyphener),
		strutLayoutsCache: make(map[text.StrutLayoutKey][2]pr.Float),
	}
	ctx.drawPage(pages[0])
	vx.Reach("drawn")
	vx.Assert("one-Transform-call", len(*canvas.xf) == 1)
	if len(*canvas.xf) != 1 {
		return
	}
	got := (*canvas.xf)[0]
	ox, oy := o.at()
	ox, oy = ox+10, oy+10 // the border box starts at the page margin
	want := vxAff{1, 0, 0, 1, ox, oy}.mul(t.m()).mul(vxAff{1, 0, 0, 1, -ox, -oy})
	// a tolerance, not equality: the trigonometric values of the concrete angles are floats
	eq := func(a, b fl) bool { return vx.And(float64(a-b) <= 1e-3, float64(b-a) <= 1e-3) }
	vx.Assert("matrix.A", eq(got.A, want.a))
	vx.Assert("matrix.B", eq(got.B, want.b))
	vx.Assert("matrix.C", eq(got.C, want.c))
	vx.Assert("matrix.D", eq(got.D, want.d))
	vx.Assert("matrix.E", eq(got.E, want.e))
	vx.Assert("matrix.F", eq(got.F, want.f))
	vx.Assert("paint-and-clip-follow-a-path", len(*canvas.protocol) == 0)
}
