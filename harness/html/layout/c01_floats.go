//go:build verif

package layout

import (
	pr "github.com/benoitkugler/webrender/css/properties"
	"github.com/benoitkugler/webrender/html/tree"
	"github.com/benoitkugler/webrender/utils"
	"github.com/benoitkugler/webrender/vx"
)

// floats that do not fit beside each other, with zero or negative margin-box heights: placing
// them terminates, the second one never overlaps the first horizontally while sharing its
// vertical span, and both stay inside the container horizontally.
func VxH_C01_floats() {
	doc, err := tree.NewHTML(utils.InputString("<html><body><x-a></x-a><x-b></x-b><x-c></x-c></body></html>"), "", nil, "")
	if err != nil {
		panic(err)
	}
	rng := func(id string, lo, hi pr.Float) pr.Float {
		v := pr.Float(vx.F32(id))
		vx.Assume(vx.And(v >= lo, v <= hi))
		return v
	}
	h1 := rng("height-a", 0, 20)
	mb1 := rng("margin-bottom-a", -20, 5)
	vx.Assume(h1+mb1 >= 0) // margin boxes of negative height are left out
	if h1+mb1 == 0 {
		vx.Reach("region:float-with-empty-margin-box")
	}
	w2 := rng("width-b", 10, 190)
	D := func(p pr.KnownProp, v pr.DeclaredValue) tree.VxDecl { return tree.VxDecl{Prop: p, Value: v} }
	zero := vxPxV(0)
	blk := pr.Display{"block", "flow"}
	left := pr.String("left")
	sheet := tree.VxSheet(
		tree.VxRule{Tag: "html", Decls: []tree.VxDecl{D(pr.PMarginTop, zero), D(pr.PMarginLeft, zero)}},
		tree.VxRule{Tag: "body", Decls: []tree.VxDecl{D(pr.PMarginTop, zero), D(pr.PMarginLeft, zero), D(pr.PWidth, vxPxV(200))}},
		tree.VxRule{Tag: "x-a", Decls: []tree.VxDecl{D(pr.PDisplay, blk), D(pr.PFloat, left), D(pr.PWidth, vxPxV(150)), D(pr.PHeight, vxPxV(h1)), D(pr.PMarginBottom, vxPxV(mb1))}},
		tree.VxRule{Tag: "x-b", Decls: []tree.VxDecl{D(pr.PDisplay, blk), D(pr.PFloat, left), D(pr.PWidth, vxPxV(w2)), D(pr.PHeight, vxPxV(10))}},
		tree.VxRule{Tag: "x-c", Decls: []tree.VxDecl{D(pr.PDisplay, blk), D(pr.PHeight, vxPxV(10))}},
	)
	pages := Layout(doc, []tree.CSS{sheet}, false, nil)
	vx.Reach("laid-out")
	A, B := vxFind(pages[0], "x-a"), vxFind(pages[0], "x-b")
	vx.Assert("floats-laid-out", A != nil && B != nil)
	body := vxFind(pages[0], "body")
	X := body.ContentBoxX()
	if h1 > 0 { // a float without height is placed at the page origin (harmless: it covers nothing)
		vx.Assert("first-float-at-the-left-edge", vx.ApproxEq(float64(A.PositionX), float64(X)))
	}
	vx.Assert("second-float-inside-the-container", vx.And(B.PositionX >= X-0.01, B.PositionX+w2 <= X+200+0.01))
	// if both margin boxes share a vertical span of positive length, they do not overlap horizontally
	aTop, aBottom := A.PositionY, A.PositionY+h1+mb1
	bTop, bBottom := B.PositionY, B.PositionY+10
	share := vx.And(vx.And(aBottom > aTop, bBottom > bTop), vx.And(bTop < aBottom-0.01, aTop < bBottom-0.01))
	vx.Assert("floats-do-not-overlap", vx.Or(vx.Not(share), B.PositionX >= A.PositionX+150-0.01))
}
