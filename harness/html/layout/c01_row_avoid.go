//go:build verif

package layout

import (
	pr "github.com/benoitkugler/webrender/css/properties"
	"github.com/benoitkugler/webrender/html/tree"
	"github.com/benoitkugler/webrender/utils"
	"github.com/benoitkugler/webrender/vx"
)

// a table row (with or without break-inside: avoid) whose content may be taller than a page:
// layout terminates and every block of the row is laid out exactly once — an avoid that cannot
// be honoured is given up.
func VxH_C01_table_row_avoid() {
	src := "<html><body><table><tr><td><x-a></x-a><x-b></x-b></td></tr><tr><td><x-c></x-c></td></tr></table></body></html>"
	doc, err := tree.NewHTML(utils.InputString(src), "", nil, "")
	if err != nil {
		panic(err)
	}
	rng := func(id string, lo, hi pr.Float) pr.Float {
		v := pr.Float(vx.F32(id))
		vx.Assume(vx.And(v >= lo, v <= hi))
		return v
	}
	D := func(p pr.KnownProp, v pr.DeclaredValue) tree.VxDecl { return tree.VxDecl{Prop: p, Value: v} }
	blk := pr.Display{"block", "flow"}
	zero := vxPxV(0)
	avoid := []pr.String{"auto", "avoid"}[vx.Choose("row-break-inside", 2)]
	tags := []string{"x-a", "x-b", "x-c"}
	rules := []tree.VxRule{
		{Tag: "html", Decls: []tree.VxDecl{D(pr.PMarginTop, zero), D(pr.PMarginBottom, zero)}},
		{Tag: "body", Decls: []tree.VxDecl{D(pr.PMarginTop, zero), D(pr.PMarginBottom, zero), D(pr.PMarginLeft, zero), D(pr.PMarginRight, zero)}},
		{Tag: "table", Decls: []tree.VxDecl{D(pr.PBorderSpacing, pr.Point{pr.Dimension{Unit: pr.Px}, pr.Dimension{Unit: pr.Px}})}},
		{Tag: "tr", Decls: []tree.VxDecl{D(pr.PBreakInside, avoid)}},
		{Tag: "td", Decls: []tree.VxDecl{D(pr.PPaddingTop, zero), D(pr.PPaddingBottom, zero), D(pr.PPaddingLeft, zero), D(pr.PPaddingRight, zero), D(pr.PVerticalAlign, pr.SToV("top"))}},
	}
	for i, tag := range tags {
		h := rng("h"+string(rune('0'+i)), 10, 90)
		rules = append(rules, tree.VxRule{Tag: tag, Decls: []tree.VxDecl{D(pr.PDisplay, blk), D(pr.PHeight, vxPxV(h)), D(pr.PWidth, vxPxV(20))}})
	}
	pages := Layout(doc, []tree.CSS{tree.VxSheet(rules...), vxSmallPage()}, false, nil)
	vx.Reach("laid-out")
	vx.Assert("finite-number-of-pages", len(pages) <= 4)
	for _, tag := range tags {
		n, _, _ := vxOccurrences(pages, tag)
		vx.Assert("laid-out-exactly-once:"+tag, n == 1)
	}
}
