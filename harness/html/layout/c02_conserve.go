//go:build verif

package layout

import (
	pr "github.com/benoitkugler/webrender/css/properties"
	bo "github.com/benoitkugler/webrender/html/boxes"
	"github.com/benoitkugler/webrender/html/tree"
	"github.com/benoitkugler/webrender/utils"
	"github.com/benoitkugler/webrender/vx"
)

func vxCount(b Box, tag string, leafOnly bool) int {
	n := 0
	f := b.Box()
	if f.ElementTag() == tag && (!leafOnly || len(f.Children) == 0) {
		n++
	}
	for _, c := range f.Children {
		n += vxCount(c, tag, leafOnly)
	}
	return n
}

func vxOccurrences(pages []*bo.PageBox, tag string) (count, firstPage, lastPage int) {
	firstPage, lastPage = -1, -1
	for i, p := range pages {
		if k := vxCount(p, tag, true); k > 0 {
			count += k
			if firstPage < 0 {
				firstPage = i
			}
			lastPage = i
		}
	}
	return
}

func vxSmallPage() tree.CSS {
	zero := vxPxV(0)
	D := func(p pr.KnownProp, v pr.DeclaredValue) tree.VxDecl { return tree.VxDecl{Prop: p, Value: v} }
	return tree.VxPageSheet(D(pr.PSize, pr.Point{pr.Dimension{Value: 100, Unit: pr.Px}, pr.Dimension{Value: 100, Unit: pr.Px}}),
		D(pr.PMarginTop, zero), D(pr.PMarginBottom, zero), D(pr.PMarginLeft, zero), D(pr.PMarginRight, zero))
}

// every unsplittable block (it fits on a page) is laid out exactly once, in document order,
// whatever the breaks, floats and avoided breaks around it.
func VxH_C02_blocks() {
	doc, err := tree.NewHTML(utils.InputString("<html><body><x-a></x-a><x-f></x-f><x-b></x-b><x-c></x-c><x-d></x-d></body></html>"), "", nil, "")
	if err != nil {
		panic(err)
	}
	rng := func(id string, lo, hi pr.Float) pr.Float {
		v := pr.Float(vx.F32(id))
		vx.Assume(vx.And(v >= lo, v <= hi))
		return v
	}
	D := func(p pr.KnownProp, v pr.DeclaredValue) tree.VxDecl { return tree.VxDecl{Prop: p, Value: v} }
	blk := pr.Display{"block", "flow"}
	zero := vxPxV(0)
	tags := []string{"x-a", "x-f", "x-b", "x-c", "x-d"}
	rules := []tree.VxRule{
		{Tag: "html", Decls: []tree.VxDecl{D(pr.PMarginTop, zero), D(pr.PMarginBottom, zero)}},
		{Tag: "body", Decls: []tree.VxDecl{D(pr.PMarginTop, zero), D(pr.PMarginBottom, zero), D(pr.PMarginLeft, zero), D(pr.PMarginRight, zero)}},
	}
	avoid := []pr.String{"auto", "avoid"}
	for i, tag := range tags {
		h := rng("h"+string(rune('0'+i)), 10, 90)
		decls := []tree.VxDecl{D(pr.PDisplay, blk), D(pr.PHeight, vxPxV(h)), D(pr.PWidth, vxPxV(40))}
		if tag == "x-f" && vx.Bool("float") {
			decls = append(decls, D(pr.PFloat, pr.String("left")))
		}
		if tag == "x-b" || tag == "x-c" {
			decls = append(decls, D(pr.PBreakAfter, avoid[vx.Choose("break-after-"+tag, 2)]))
		}
		rules = append(rules, tree.VxRule{Tag: tag, Decls: decls})
	}
	pages := Layout(doc, []tree.CSS{tree.VxSheet(rules...), vxSmallPage()}, false, nil)
	vx.Reach("laid-out")
	prev := 0
	for _, tag := range tags {
		n, first, _ := vxOccurrences(pages, tag)
		vx.Assert("laid-out-exactly-once:"+tag, n == 1)
		vx.Assert("document-order:"+tag, first >= prev)
		prev = first
	}
}

// a table row taller than the page is split: every block inside its cells still appears exactly once.
func VxH_C02_table_row() {
	src := "<html><body><table><tr><td><x-a></x-a><x-b></x-b></td><th><x-c></x-c><x-d></x-d><x-e></x-e><x-f></x-f></th></tr></table></body></html>"
	doc, err := tree.NewHTML(utils.InputString(src), "", nil, "")
	if err != nil {
		panic(err)
	}
	rng := func(id string, lo, hi pr.Float) pr.Float {
		v := pr.Float(vx.F32(id))
		vx.Assume(vx.And(v >= lo, v <= hi))
		return v
	}
	D := func(p pr.KnownProp, v pr.DeclaredValue) tree.VxDecl { return tree.VxDecl{Prop: p, Value: v} }
	blk := pr.Display{"block", "flow"}
	zero := vxPxV(0)
	tags := []string{"x-a", "x-b", "x-c", "x-d", "x-e", "x-f"}
	rules := []tree.VxRule{
		{Tag: "html", Decls: []tree.VxDecl{D(pr.PMarginTop, zero), D(pr.PMarginBottom, zero)}},
		{Tag: "body", Decls: []tree.VxDecl{D(pr.PMarginTop, zero), D(pr.PMarginBottom, zero), D(pr.PMarginLeft, zero), D(pr.PMarginRight, zero)}},
		{Tag: "table", Decls: []tree.VxDecl{D(pr.PBorderSpacing, pr.Point{pr.Dimension{Unit: pr.Px}, pr.Dimension{Unit: pr.Px}})}},
		{Tag: "td", Decls: []tree.VxDecl{D(pr.PPaddingTop, zero), D(pr.PPaddingBottom, zero), D(pr.PPaddingLeft, zero), D(pr.PPaddingRight, zero), D(pr.PVerticalAlign, pr.SToV("top"))}},
		{Tag: "th", Decls: []tree.VxDecl{D(pr.PPaddingTop, zero), D(pr.PPaddingBottom, zero), D(pr.PPaddingLeft, zero), D(pr.PPaddingRight, zero), D(pr.PVerticalAlign, pr.SToV("top"))}},
	}
	for i, tag := range tags {
		h := rng("h"+string(rune('0'+i)), 10, 60)
		rules = append(rules, tree.VxRule{Tag: tag, Decls: []tree.VxDecl{D(pr.PDisplay, blk), D(pr.PHeight, vxPxV(h)), D(pr.PWidth, vxPxV(20))}})
	}
	pages := Layout(doc, []tree.CSS{tree.VxSheet(rules...), vxSmallPage()}, false, nil)
	vx.Reach("laid-out")
	for _, tag := range tags {
		n, _, _ := vxOccurrences(pages, tag)
		vx.Assert("laid-out-exactly-once:"+tag, n == 1)
	}
}

// a container with bottom padding / border crossing the page bottom (its content fits, its
// decoration does not): the children pushed to the next page are still laid out exactly once.
func VxH_C02_nested_padding() {
	doc, err := tree.NewHTML(utils.InputString("<html><body><x-x></x-x><section><x-a></x-a><x-b></x-b><x-c></x-c></section><x-d></x-d></body></html>"), "", nil, "")
	if err != nil {
		panic(err)
	}
	rng := func(id string, lo, hi pr.Float) pr.Float {
		v := pr.Float(vx.F32(id))
		vx.Assume(vx.And(v >= lo, v <= hi))
		return v
	}
	D := func(p pr.KnownProp, v pr.DeclaredValue) tree.VxDecl { return tree.VxDecl{Prop: p, Value: v} }
	blk := pr.Display{"block", "flow"}
	zero := vxPxV(0)
	tags := []string{"x-x", "x-a", "x-b", "x-c", "x-d"}
	pb := rng("padding-bottom", 0, 40)
	bw := pr.Float(0)
	if vx.Bool("border-bottom") {
		bw = rng("border-bottom-width", 1, 20)
	}
	rules := []tree.VxRule{
		{Tag: "html", Decls: []tree.VxDecl{D(pr.PMarginTop, zero), D(pr.PMarginBottom, zero)}},
		{Tag: "body", Decls: []tree.VxDecl{D(pr.PMarginTop, zero), D(pr.PMarginBottom, zero), D(pr.PMarginLeft, zero), D(pr.PMarginRight, zero)}},
		{Tag: "section", Decls: []tree.VxDecl{D(pr.PDisplay, blk), D(pr.PPaddingBottom, vxPxV(pb)), D(pr.PBorderBottomWidth, vxPxV(bw)), D(pr.PBorderBottomStyle, pr.String("solid"))}},
	}
	for i, tag := range tags {
		h := rng("h"+string(rune('0'+i)), 10, 60)
		rules = append(rules, tree.VxRule{Tag: tag, Decls: []tree.VxDecl{D(pr.PDisplay, blk), D(pr.PHeight, vxPxV(h)), D(pr.PWidth, vxPxV(40))}})
	}
	pages := Layout(doc, []tree.CSS{tree.VxSheet(rules...), vxSmallPage()}, false, nil)
	vx.Reach("laid-out")
	prev := 0
	for _, tag := range tags {
		n, first, _ := vxOccurrences(pages, tag)
		vx.Assert("laid-out-exactly-once:"+tag, n == 1)
		vx.Assert("document-order:"+tag, first >= prev)
		prev = first
	}
	if len(pages) > 1 {
		vx.Reach("split")
	}
	// C12: the section follows another block on the first page, so a break before it or between its
	// children is always available: its border box (bottom padding and border included) stays
	// above the bottom of that page
	if sec := vxFind(pages[0], "section"); sec != nil {
		vx.Assert("section-with-its-decoration-inside-the-first-page", float64(sec.BorderBoxY()+sec.BorderHeight()) <= 100+1e-3)
	}
}

// a float taller than the page, with breakable content: what does not fit on the first page
// continues on the next one, whether or not in-flow content follows.
func VxH_C02_broken_float() {
	follow := vx.Choose("in-flow-content-after", 2) == 1
	n := 2 + vx.Choose("blocks-in-float", 2)
	css := "@page{size:300px 100px;margin:0} html,body{margin:0} head{display:none} x-f{display:block;float:left;width:40px} " +
		"x-a,x-b,x-c,x-z{display:block;height:60px;width:40px} x-y{display:block;clear:both} "
	inner := []string{"<x-a></x-a>", "<x-b></x-b>", "<x-c></x-c>"}
	body := "<x-f>"
	for i := 0; i < n; i++ {
		body += inner[i]
	}
	body += "</x-f>"
	if follow {
		body += "<x-y><x-z></x-z><x-z></x-z></x-y>" // two pages of in-flow content
	}
	if !follow || n > 2 {
		// the float needs more pages than the in-flow content
		vx.Reach("region:float-outlasts-the-in-flow-content")
	}
	src := "<html><head><style>" + css + "</style></head><body>" + body + "</body></html>"
	doc, err := tree.NewHTML(utils.InputString(src), "", nil, "")
	if err != nil {
		panic(err)
	}
	pages := Layout(doc, nil, false, nil)
	vx.Reach("laid-out")
	for _, tag := range []string{"x-a", "x-b", "x-c"}[:n] {
		k, _, _ := vxOccurrences(pages, tag)
		vx.Assert("float-content-laid-out-exactly-once:"+tag, k == 1)
	}
}
