//go:build verif

package layout

import (
	bo "github.com/benoitkugler/webrender/html/boxes"
	"github.com/benoitkugler/webrender/html/tree"
	"github.com/benoitkugler/webrender/text"
	"github.com/benoitkugler/webrender/utils"
	"github.com/benoitkugler/webrender/vx"
)

func vxCountText(pages []*bo.PageBox, needle string) int {
	n := 0
	var walk func(b Box)
	walk = func(b Box) {
		if t, ok := b.(*bo.TextBox); ok {
			s := string(t.Text)
			for i := 0; i+len(needle) <= len(s); i++ {
				if s[i:i+len(needle)] == needle {
					n++
				}
			}
		}
		for _, c := range b.Box().AllChildren() {
			walk(c)
		}
	}
	for _, p := range pages {
		walk(p)
	}
	return n
}

// footnotes (float: footnote): whatever the room the footnote area may take, the text of every
// footnote is laid out exactly once, on some page, and so is the body text.
func VxH_C02_footnotes() {
	n := 2 + vx.Choose("footnotes", 3+vx.Tier())
	perLine := vx.Choose("on-one-line", 2) == 1
	mh := []string{"2px", "4px", "10px", "15px", "25px", "40px", "none"}[vx.Choose("footnote-max-height", 7)]
	marks := []string{"fa", "fb", "fc", "fd", "fe", "ff"}
	words := []string{"wa", "wb", "wc", "wd", "we", "wf"}
	body := ""
	for i := 0; i < n; i++ {
		body += words[i] + "<span>" + marks[i] + "</span> "
		if !perLine {
			body += "<br>"
		}
	}
	css := "@page{size:300px 100px;margin:0; @footnote{max-height:" + mh + "}} html,body{margin:0} head{display:none} p{display:block;margin:0;font-size:10px;line-height:10px} " +
		"span{float:footnote} ::footnote-call{content:none} ::footnote-marker{content:none} "
	src := "<html><head><style>" + css + "</style></head><body><p>" + body + "</p></body></html>"
	doc, err := tree.NewHTML(utils.InputString(src), "", nil, "")
	if err != nil {
		panic(err)
	}
	pages := Layout(doc, nil, false, text.VxAhem{})
	vx.Reach("laid-out")
	for i := 0; i < n; i++ {
		vx.Assert("footnote-laid-out-exactly-once:"+marks[i], vxCountText(pages, marks[i]) == 1)
		vx.Assert("body-text-laid-out-exactly-once:"+words[i], vxCountText(pages, words[i]) == 1)
	}
	if len(pages) > 1 {
		vx.Reach("several-pages")
	}
}
