//go:build verif

package layout

import (
	"github.com/benoitkugler/webrender/html/tree"
	"github.com/benoitkugler/webrender/text"
	"github.com/benoitkugler/webrender/utils"
	"github.com/benoitkugler/webrender/vx"
)

// floats inside a line, next to earlier floats of the block: whatever their sizes (a line taller
// than its strut is laid out again; a float too wide waits for the next line) every text run,
// the floated ones included, is laid out exactly once.
func VxH_C02_line_floats() {
	bigs := []string{"10px", "20px", "30px"}
	big := bigs[vx.Choose("tall-span-font-size", len(bigs))]
	fw := []string{"20px", "100px", "190px"}[vx.Choose("line-float-width", 3)]
	bh := []string{"5px", "15px", "50px"}[vx.Choose("second-float-height", 3)]
	bw := []string{"80px", "150px"}[vx.Choose("second-float-width", 2)]
	css := "html,body{margin:0} head{display:none} body{font-size:10px;line-height:1;width:200px} p{display:block;margin:0} " +
		"x-a{display:block;float:left;width:50px;height:10px} x-b{display:block;float:left;clear:left;width:" + bw + ";height:" + bh + "} " +
		"x-t{font-size:" + big + "} x-f{float:left;width:" + fw + "} "
	src := "<html><head><style>" + css + "</style></head><body><x-a></x-a><x-b></x-b><p>xx <x-t>Y</x-t> <x-f>FLOAT</x-f> zz</p></body></html>"
	doc, err := tree.NewHTML(utils.InputString(src), "", nil, "")
	if err != nil {
		panic(err)
	}
	pages := Layout(doc, nil, false, text.VxAhem{})
	vx.Reach("laid-out")
	for _, w := range []string{"xx", "Y", "FLOAT", "zz"} {
		vx.Assert("text-laid-out-exactly-once:"+w, vxCountText(pages, w) == 1)
	}
}
