//go:build verif

package layout

import (
	pr "github.com/benoitkugler/webrender/css/properties"
	"github.com/benoitkugler/webrender/html/tree"
	"github.com/benoitkugler/webrender/text"
	"github.com/benoitkugler/webrender/utils"
	"github.com/benoitkugler/webrender/vx"
)

// ex and ch with a font configuration in place (VxAhem: x-height 0.8 em, advance of "0" 1 em):
// font-size in ex / ch refers to the parent's font, other properties to the element's own;
// computing them terminates.
func VxH_C04_ex_ch() {
	decls := []string{"font-size:1.5ex", "font-size:2ch", "width:2ex", "width:3ch", "tab-size:2ch", "hyphenate-limit-zone:2ex", "margin-left:1ex;font-size:2ex"}
	k := vx.Choose("declaration", len(decls))
	css := "html,body{margin:0} head{display:none} body{font-size:10px} p{display:block;margin:0;" + decls[k] + "} "
	src := "<html><head><style>" + css + "</style></head><body><p></p></body></html>"
	doc, err := tree.NewHTML(utils.InputString(src), "", nil, "")
	if err != nil {
		panic(err)
	}
	pages := Layout(doc, nil, false, text.VxAhem{})
	vx.Reach("laid-out")
	p := vxFind(pages[0], "p")
	vx.Assert("paragraph-exists", p != nil)
	eq := func(a, b pr.Float) bool { return vx.ApproxEq(float64(a), float64(b)) }
	fs := p.Style.GetFontSize().Value
	switch k {
	case 0:
		vx.Assert("font-size-in-ex-of-the-parent", eq(fs, 1.5*0.8*10))
	case 1:
		vx.Assert("font-size-in-ch-of-the-parent", eq(fs, 2*10))
	case 2:
		vx.Assert("width-in-ex", eq(p.Width.V(), 2*0.8*10))
	case 3:
		vx.Assert("width-in-ch", eq(p.Width.V(), 3*10))
	case 6:
		vx.Assert("font-size-in-ex-of-the-parent", eq(fs, 2*0.8*10))
		vx.Assert("margin-in-ex-of-the-element", eq(p.MarginLeft.V(), 0.8*fs))
	}
}
