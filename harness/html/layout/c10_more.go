//go:build verif

package layout

import (
	pr "github.com/benoitkugler/webrender/css/properties"
	bo "github.com/benoitkugler/webrender/html/boxes"
	"github.com/benoitkugler/webrender/vx"
)

// adjoining margins collapse to (largest positive) + (most negative).
func VxH_C10_collapse() {
	n := vx.Choose("n", 4+vx.Tier()) + 1
	var ms []pr.Float
	maxPos, minNeg := 0.0, 0.0
	for i := 0; i < n; i++ {
		m := pr.Float(vx.F32("m" + string(rune('0'+i))))
		ms = append(ms, m)
		maxPos = vx.IteF(float64(m) > maxPos, float64(m), maxPos)
		minNeg = vx.IteF(float64(m) < minNeg, float64(m), minNeg)
	}
	got := collapseMargin(ms)
	vx.Reach("collapsed")
	vx.Assert("collapse-max-positive-plus-min-negative", vx.RealEq(float64(got), maxPos+minNeg))
}

func vxLenOrPerc(id string, allowAuto bool) (pr.DimOrS, int) {
	k := 2
	if allowAuto {
		k = 3
	}
	switch vx.Choose(id+"-kind", k) {
	case 0:
		return pr.Dimension{Value: pr.Float(vx.F32(id)), Unit: pr.Px}.ToValue(), 0
	case 1:
		return pr.Dimension{Value: pr.Float(vx.F32(id)), Unit: pr.Perc}.ToValue(), 1
	}
	return pr.SToV("auto"), 2
}

// percentages of horizontal and vertical margins and paddings, of width and of min/max-width all
// refer to the containing block width (height only for pages); box-sizing never yields negative sizes.
func VxH_C10_percent() {
	cbW, cbH := pr.Float(vx.F32("cbw")), pr.Float(vx.F32("cbh"))
	vx.Assume(vx.And(cbW >= 0, cbH >= 0))
	st := newVxStyle()
	zero := pr.Dimension{Unit: pr.Px}.ToValue()
	st.SetBorderTopWidth(zero) // the raw initial value is "medium" (3px) whatever the border style
	st.SetBorderRightWidth(zero)
	st.SetBorderBottomWidth(zero)
	st.SetBorderLeftWidth(zero)
	side := vx.Choose("prop", 6)
	v, kind := vxLenOrPerc("v", side <= 1 || side == 4)
	if side >= 2 || kind != 2 {
		if kind != 2 {
			vx.Assume(v.Value >= 0 || side <= 1)
		}
	}
	switch side {
	case 0:
		st.SetMarginLeft(v)
	case 1:
		st.SetMarginTop(v)
	case 2:
		st.SetPaddingRight(v)
	case 3:
		st.SetPaddingBottom(v)
	case 4:
		st.SetWidth(v)
	default:
		st.SetMinWidth(v)
	}
	sizing := []string{"content-box", "padding-box", "border-box"}[vx.Choose("box-sizing", 3)]
	st.SetBoxSizing(pr.String(sizing))
	pl := pr.Float(vx.F32("pl"))
	bw := pr.Float(vx.F32("bw"))
	vx.Assume(vx.And(pl >= 0, bw >= 0))
	if side != 2 {
		st.SetPaddingLeft(pr.Dimension{Value: pl, Unit: pr.Px}.ToValue())
	} else {
		pl = 0
	}
	st.SetBorderLeftWidth(pr.Dimension{Value: bw, Unit: pr.Px}.ToValue())
	b := &bo.BlockBox{}
	b.Box().Style = st
	resolvePercentages(b, bo.MaybePoint{cbW, cbH}, 0)
	f := b.Box()
	vx.Reach("resolved")
	want := float64(v.Value)
	if kind == 1 {
		want = float64(v.Value) * float64(cbW) / 100
	}
	var padR float64
	if side == 2 {
		padR = want
	}
	delta := 0.0
	switch sizing {
	case "padding-box":
		delta = float64(pl) + padR
	case "border-box":
		delta = float64(pl) + padR + float64(bw)
	}
	shrink := func(x float64) float64 {
		if delta > 0 {
			return vx.IteF(x-delta > 0, x-delta, 0)
		}
		return x
	}
	switch side {
	case 0:
		if kind == 2 {
			vx.Assert("margin-left-auto", f.MarginLeft == pr.AutoF)
		} else {
			vx.Assert("margin-left", vx.ApproxEq(float64(f.MarginLeft.V()), want))
		}
	case 1:
		if kind == 2 {
			vx.Assert("margin-top-auto", f.MarginTop == pr.AutoF)
		} else {
			vx.Assert("margin-top-refers-to-width", vx.ApproxEq(float64(f.MarginTop.V()), want))
		}
	case 2:
		vx.Assert("padding-right", vx.ApproxEq(float64(f.PaddingRight.V()), want))
	case 3:
		vx.Assert("padding-bottom-refers-to-width", vx.ApproxEq(float64(f.PaddingBottom.V()), want))
	case 4:
		if kind == 2 {
			vx.Assert("width-auto", f.Width == pr.AutoF)
		} else {
			vx.Assert("width-box-sizing", vx.ApproxEq(float64(f.Width.V()), shrink(want)))
			vx.Assert("width-not-negative", f.Width.V() >= 0)
		}
	default:
		vx.Assert("min-width-box-sizing", vx.ApproxEq(float64(f.MinWidth.V()), shrink(want)))
		vx.Assert("min-width-not-negative", f.MinWidth.V() >= 0)
	}
}
