//go:build verif

package layout

import (
	pr "github.com/benoitkugler/webrender/css/properties"
	bo "github.com/benoitkugler/webrender/html/boxes"
	"github.com/benoitkugler/webrender/html/tree"
	"github.com/benoitkugler/webrender/utils"
	"github.com/benoitkugler/webrender/vx"
)

// adjoining margins collapse to (largest positive) + (most negative).
func VxH_C10_collapse() {
	n := vx.Choose("n", 4+vx.Tier()) + 1
	var ms []pr.Float
	maxPos, minNeg := 0.0, 0.0
	for i := 0; i < n; i++ {
		m := pr.Float(vx.F32("m" + string(rune('0'+i))))
		ms = append(ms, m)
		maxPos = vx.IteF(float64(m) > maxPos, float64(m), maxPos)
		minNeg = vx.IteF(float64(m) < minNeg, float64(m), minNeg)
	}
	got := collapseMargin(ms)
	vx.Reach("collapsed")
	vx.Assert("collapse-max-positive-plus-min-negative", vx.RealEq(float64(got), maxPos+minNeg))
}

func vxLenOrPerc(id string, allowAuto bool) (pr.DimOrS, int) {
	k := 2
	if allowAuto {
		k = 3
	}
	switch vx.Choose(id+"-kind", k) {
	case 0:
		return pr.Dimension{Value: pr.Float(vx.F32(id)), Unit: pr.Px}.ToValue(), 0
	case 1:
		return pr.Dimension{Value: pr.Float(vx.F32(id)), Unit: pr.Perc}.ToValue(), 1
	}
	return pr.SToV("auto"), 2
}

// percentages of horizontal and vertical margins and paddings, of width and of min/max-width all
// refer to the containing block width (height only for pages); box-sizing never yields negative sizes.
func VxH_C10_percent() {
	cbW, cbH := pr.Float(vx.F32("cbw")), pr.Float(vx.F32("cbh"))
	vx.Assume(vx.And(cbW >= 0, cbH >= 0))
	st := newVxStyle()
	zero := pr.Dimension{Unit: pr.Px}.ToValue()
	st.SetBorderTopWidth(zero) // the raw initial value is "medium" (3px) whatever the border style
	st.SetBorderRightWidth(zero)
	st.SetBorderBottomWidth(zero)
	st.SetBorderLeftWidth(zero)
	side := vx.Choose("prop", 6)
	v, kind := vxLenOrPerc("v", side <= 1 || side == 4)
	if side >= 2 || kind != 2 {
		if kind != 2 {
			vx.Assume(v.Value >= 0 || side <= 1)
		}
	}
	switch side {
	case 0:
		st.SetMarginLeft(v)
	case 1:
		st.SetMarginTop(v)
	case 2:
		st.SetPaddingRight(v)
	case 3:
		st.SetPaddingBottom(v)
	case 4:
		st.SetWidth(v)
	default:
		st.SetMinWidth(v)
	}
	sizing := []string{"content-box", "padding-box", "border-box"}[vx.Choose("box-sizing", 3)]
	st.SetBoxSizing(pr.String(sizing))
	pl := pr.Float(vx.F32("pl"))
	bw := pr.Float(vx.F32("bw"))
	vx.Assume(vx.And(pl >= 0, bw >= 0))
	if side != 2 {
		st.SetPaddingLeft(pr.Dimension{Value: pl, Unit: pr.Px}.ToValue())
	} else {
		pl = 0
	}
	st.SetBorderLeftWidth(pr.Dimension{Value: bw, Unit: pr.Px}.ToValue())
	b := &bo.BlockBox{}
	b.Box().Style = st
	resolvePercentages(b, bo.MaybePoint{cbW, cbH}, 0)
	f := b.Box()
	vx.Reach("resolved")
	want := float64(v.Value)
	if kind == 1 {
		want = float64(v.Value) * float64(cbW) / 100
	}
	var padR float64
	if side == 2 {
		padR = want
	}
	delta := 0.0
	switch sizing {
	case "padding-box":
		delta = float64(pl) + padR
	case "border-box":
		delta = float64(pl) + padR + float64(bw)
	}
	shrink := func(x float64) float64 {
		if delta > 0 {
			return vx.IteF(x-delta > 0, x-delta, 0)
		}
		return x
	}
	switch side {
	case 0:
		if kind == 2 {
			vx.Assert("margin-left-auto", f.MarginLeft == pr.AutoF)
		} else {
			vx.Assert("margin-left", vx.ApproxEq(float64(f.MarginLeft.V()), want))
		}
	case 1:
		if kind == 2 {
			vx.Assert("margin-top-auto", f.MarginTop == pr.AutoF)
		} else {
			vx.Assert("margin-top-refers-to-width", vx.ApproxEq(float64(f.MarginTop.V()), want))
		}
	case 2:
		vx.Assert("padding-right", vx.ApproxEq(float64(f.PaddingRight.V()), want))
	case 3:
		vx.Assert("padding-bottom-refers-to-width", vx.ApproxEq(float64(f.PaddingBottom.V()), want))
	case 4:
		if kind == 2 {
			vx.Assert("width-auto", f.Width == pr.AutoF)
		} else {
			vx.Assert("width-box-sizing", vx.ApproxEq(float64(f.Width.V()), shrink(want)))
			vx.Assert("width-not-negative", f.Width.V() >= 0)
		}
	default:
		vx.Assert("min-width-box-sizing", vx.ApproxEq(float64(f.MinWidth.V()), shrink(want)))
		vx.Assert("min-width-not-negative", f.MinWidth.V() >= 0)
	}
}

// used height with min-height / max-height / height under every box-sizing: the border box (or
// padding / content box) named by box-sizing obeys the constraints, vertical paddings and
// borders are taken off the vertical axis only, and the next sibling starts right below.
func VxH_C10_box_sizing_height() {
	doc, err := tree.NewHTML(utils.InputString("<html><body><section></section><aside></aside></body></html>"), "", nil, "")
	if err != nil {
		panic(err)
	}
	rng := func(id string, lo, hi pr.Float) pr.Float {
		v := pr.Float(vx.F32(id))
		vx.Assume(vx.And(v >= lo, v <= hi))
		return v
	}
	pv, ph := rng("padding-vertical", 0, 20), rng("padding-horizontal", 0, 40)
	bv, bh := rng("border-vertical", 0, 10), rng("border-horizontal", 0, 10)
	sizing := []pr.String{"content-box", "padding-box", "border-box"}[vx.Choose("box-sizing", 3)]
	which := vx.Choose("constraint", 3) // 0: height, 1: min-height (over an auto height), 2: max-height under a height
	val := rng("value", 0, 150)
	D := func(p pr.KnownProp, v pr.DeclaredValue) tree.VxDecl { return tree.VxDecl{Prop: p, Value: v} }
	decls := []tree.VxDecl{
		D(pr.PDisplay, pr.Display{"block", "flow"}), D(pr.PBoxSizing, sizing), D(pr.PWidth, vxPxV(200)),
		D(pr.PPaddingTop, vxPxV(pv)), D(pr.PPaddingBottom, vxPxV(pv)), D(pr.PPaddingLeft, vxPxV(ph)), D(pr.PPaddingRight, vxPxV(ph)),
		D(pr.PBorderTopWidth, vxPxV(bv)), D(pr.PBorderBottomWidth, vxPxV(bv)), D(pr.PBorderLeftWidth, vxPxV(bh)), D(pr.PBorderRightWidth, vxPxV(bh)),
		D(pr.PBorderTopStyle, pr.String("solid")), D(pr.PBorderBottomStyle, pr.String("solid")), D(pr.PBorderLeftStyle, pr.String("solid")), D(pr.PBorderRightStyle, pr.String("solid")),
	}
	switch which {
	case 0:
		decls = append(decls, D(pr.PHeight, vxPxV(val)))
	case 1:
		decls = append(decls, D(pr.PMinHeight, vxPxV(val)))
	default:
		decls = append(decls, D(pr.PHeight, vxPxV(300)), D(pr.PMaxHeight, vxPxV(val)))
	}
	sheet := tree.VxSheet(
		tree.VxRule{Tag: "body", Decls: []tree.VxDecl{D(pr.PMarginTop, vxPxV(0)), D(pr.PPaddingTop, vxPxV(1))}},
		tree.VxRule{Tag: "section", Decls: decls},
		tree.VxRule{Tag: "aside", Decls: []tree.VxDecl{D(pr.PDisplay, pr.Display{"block", "flow"}), D(pr.PHeight, vxPxV(10))}},
	)
	pages := Layout(doc, []tree.CSS{sheet}, false, nil)
	vx.Reach("laid-out")
	S, N := vxFind(pages[0], "section"), vxFind(pages[0], "aside")
	vx.Assert("boxes-exist", S != nil && N != nil)
	eq := func(a, b pr.Float) bool { return vx.ApproxEq(float64(a), float64(b)) }
	// the box named by box-sizing
	var sized pr.Float
	switch sizing {
	case "content-box":
		sized = S.Height.V()
	case "padding-box":
		sized = S.Height.V() + 2*pv
	default:
		sized = S.BorderHeight()
	}
	// what the constraint asks of that box; it cannot make the content height negative
	floor := pr.Float(0)
	switch sizing {
	case "padding-box":
		floor = 2 * pv
	case "border-box":
		floor = 2*pv + 2*bv
	}
	want := val
	if float64(want) < float64(floor) {
		want = floor
	}
	vx.Assert("sized-box-has-the-constrained-height", eq(sized, want))
	vx.Assert("border-box-is-content-plus-vertical-decorations", eq(S.BorderHeight(), S.Height.V()+2*pv+2*bv))
	vx.Assert("next-sibling-right-below", eq(N.BorderBoxY(), S.BorderBoxY()+S.BorderHeight()))
}
