//go:build verif

package layout

import (
	pr "github.com/benoitkugler/webrender/css/properties"
	bo "github.com/benoitkugler/webrender/html/boxes"
	"github.com/benoitkugler/webrender/html/tree"
	"github.com/benoitkugler/webrender/utils"
	"github.com/benoitkugler/webrender/vx"
)

func vxPxV(v pr.Float) pr.DimOrS { return pr.Dimension{Value: v, Unit: pr.Px}.ToValue() }

func vxFind(b Box, tag string) *bo.BoxFields {
	if f := b.Box(); f.ElementTag() == tag {
		return f
	}
	for _, c := range b.Box().Children {
		if r := vxFind(c, tag); r != nil {
			return r
		}
	}
	return nil
}

// in-flow siblings stack top to bottom; adjoining margins collapse, including
// parent/first-child and parent/last-child; an auto-height box ends at its last in-flow child.
func VxH_C10_stack() {
	doc, err := tree.NewHTML(utils.InputString("<html><body><section><article></article></section><aside></aside></body></html>"), "", nil, "")
	if err != nil {
		panic(err)
	}
	rng := func(id string, lo, hi pr.Float) pr.Float {
		v := pr.Float(vx.F32(id))
		vx.Assume(vx.And(v >= lo, v <= hi))
		return v
	}
	pt := pr.Float(0)
	if vx.Bool("padding-top") {
		pt = rng("pt", 1, 50)
	}
	pb := pr.Float(0)
	if vx.Bool("padding-bottom") {
		pb = rng("pb", 1, 50)
	}
	h := rng("h", 1, 100)
	mt, mb, mt2 := rng("mt", -20, 20), rng("mb", -20, 20), rng("mt2", -20, 20)
	h2 := rng("h2", 1, 100)
	// the parent's content height computed from its child must not be negative (no clamping): the
	// child's bottom (margin) edge stays below the parent's content top
	inner := pr.Float(0) // the child's top margin stays inside the parent only below a top padding
	if pt > 0 {
		inner = mt
	}
	if pb > 0 {
		vx.Assume(inner+h+mb >= 0)
	} else {
		vx.Assume(inner+h >= 0)
	}
	D := func(p pr.KnownProp, v pr.DeclaredValue) tree.VxDecl { return tree.VxDecl{Prop: p, Value: v} }
	sheet := tree.VxSheet(
		tree.VxRule{Tag: "body", Decls: []tree.VxDecl{D(pr.PPaddingTop, vxPxV(1)), D(pr.PMarginTop, vxPxV(0))}},
		tree.VxRule{Tag: "section", Decls: []tree.VxDecl{D(pr.PDisplay, pr.Display{"block", "flow"}), D(pr.PPaddingTop, vxPxV(pt)), D(pr.PPaddingBottom, vxPxV(pb))}},
		tree.VxRule{Tag: "article", Decls: []tree.VxDecl{D(pr.PDisplay, pr.Display{"block", "flow"}), D(pr.PHeight, vxPxV(h)), D(pr.PMarginTop, vxPxV(mt)), D(pr.PMarginBottom, vxPxV(mb))}},
		tree.VxRule{Tag: "aside", Decls: []tree.VxDecl{D(pr.PDisplay, pr.Display{"block", "flow"}), D(pr.PHeight, vxPxV(h2)), D(pr.PMarginTop, vxPxV(mt2))}},
	)
	pages := Layout(doc, []tree.CSS{sheet}, false, nil)
	vx.Reach("laid-out")
	vx.Assert("one-page", len(pages) == 1)
	body := vxFind(pages[0], "body")
	P, C, N := vxFind(pages[0], "section"), vxFind(pages[0], "article"), vxFind(pages[0], "aside")
	vx.Assert("boxes-exist", body != nil && P != nil && C != nil && N != nil)
	T := body.ContentBoxY()
	collapse2 := func(a, b pr.Float) pr.Float { // collapse of two margins
		maxP := pr.Float(vx.IteF(float64(a) > 0, float64(a), 0))
		maxP = pr.Float(vx.IteF(float64(b) > float64(maxP), float64(b), float64(maxP)))
		minN := pr.Float(vx.IteF(float64(a) < 0, float64(a), 0))
		minN = pr.Float(vx.IteF(float64(b) < float64(minN), float64(b), float64(minN)))
		return maxP + minN
	}
	eq := func(a, b pr.Float) bool { return vx.ApproxEq(float64(a), float64(b)) }
	var cTop pr.Float
	if pt > 0 {
		vx.Assert("parent-top", eq(P.BorderBoxY(), T))
		cTop = T + pt + mt
	} else {
		vx.Assert("parent-first-child-margins-collapse", eq(P.BorderBoxY(), T+mt))
		cTop = T + mt
	}
	vx.Assert("child-top", eq(C.BorderBoxY(), cTop))
	vx.Assert("child-height", eq(C.BorderHeight(), h))
	cBottom := cTop + h
	if pb > 0 {
		vx.Assert("parent-ends-after-last-child-margin", eq(P.BorderBoxY()+P.BorderHeight(), cBottom+mb+pb))
		vx.Assert("next-sibling-top", eq(N.BorderBoxY(), cBottom+mb+pb+mt2))
	} else {
		vx.Assert("auto-height-ends-at-last-child", eq(P.BorderBoxY()+P.BorderHeight(), cBottom))
		vx.Assert("next-sibling-top-collapsed", eq(N.BorderBoxY(), cBottom+collapse2(mb, mt2)))
	}
}
