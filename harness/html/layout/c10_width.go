//go:build verif

package layout

import (
	pr "github.com/benoitkugler/webrender/css/properties"
	bo "github.com/benoitkugler/webrender/html/boxes"
	"github.com/benoitkugler/webrender/vx"
)

func vxMaybeAuto(id string) (pr.MaybeFloat, bool) {
	if vx.Bool(id + "-auto") {
		return pr.AutoF, true
	}
	return pr.Float(vx.F32(id)), false
}

func vxNonNeg(id string) pr.Float {
	v := pr.Float(vx.F32(id))
	vx.Assume(v >= 0)
	return v
}

// CSS 2.1 10.3.3 and 10.4: used width and horizontal margins of a block-level box in normal flow.
func VxH_C10_width() {
	cb := pr.Float(vx.F32("cb"))
	vx.Assume(cb >= 0)
	b := &bo.BlockBox{}
	f := b.Box()
	pl, prr, bl, br := vxNonNeg("pl"), vxNonNeg("pr"), vxNonNeg("bl"), vxNonNeg("br")
	f.PaddingLeft, f.PaddingRight, f.BorderLeftWidth, f.BorderRightWidth = pl, prr, bl, br
	ml, mlAuto := vxMaybeAuto("ml")
	mr, mrAuto := vxMaybeAuto("mr")
	f.MarginLeft, f.MarginRight = ml, mr
	var wAuto bool
	f.Width, wAuto = vxMaybeAuto("w")
	if !wAuto {
		vx.Assume(f.Width.V() >= 0)
	}
	minW := vxNonNeg("min")
	f.MinWidth = minW
	maxNone := vx.Bool("max-none")
	var maxW pr.Float
	if maxNone {
		f.MaxWidth = pr.Inf
	} else {
		maxW = vxNonNeg("max")
		f.MaxWidth = maxW
	}
	specW := f.Width
	blockLevelWidth(b, nil, block{Width: cb})
	vx.Reach("resolved")
	vx.Assert("width-not-auto", f.Width != pr.AutoF)
	vx.Assert("margins-not-auto", f.MarginLeft != pr.AutoF && f.MarginRight != pr.AutoF)
	w, uml, umr := f.Width.V(), f.MarginLeft.V(), f.MarginRight.V()
	pb := pl + prr + bl + br
	// 10.4: tentative width, then max, then min (min wins)
	tent := func(width pr.MaybeFloat) pr.Float {
		if width != pr.AutoF {
			return width.V()
		}
		l, r := pr.Float(0), pr.Float(0)
		if !mlAuto {
			l = ml.V()
		}
		if !mrAuto {
			r = mr.V()
		}
		return cb - pb - l - r
	}
	want := tent(specW)
	constrained := !wAuto
	if !maxNone && want > maxW {
		want, constrained = maxW, true
	}
	if want < minW {
		want, constrained = minW, true
	}
	vx.Assert("used-width", vx.ApproxEq(float64(w), float64(want)))
	// 10.3.3 with that width
	free := cb - pb - want
	fits := true
	{
		total := pb + want
		if !mlAuto {
			total += ml.V()
		}
		if !mrAuto {
			total += mr.V()
		}
		fits = total <= cb
	}
	switch {
	case !constrained: // width auto: auto margins are 0, the width fills
		if mlAuto {
			vx.Assert("auto-margin-left-zero", uml == 0)
		}
		if mrAuto {
			vx.Assert("auto-margin-right-zero", umr == 0)
		}
		vx.Assert("width-equation", vx.ApproxEq(float64(uml+umr+pb+w), float64(cb)))
	case mlAuto && mrAuto:
		if fits {
			vx.Assert("centered", vx.And(vx.ApproxEq(float64(uml), float64(free/2)), vx.ApproxEq(float64(umr), float64(free/2))))
		} else {
			// both treated as zero, then margin-right absorbs the (negative) free space in ltr
			vx.Assert("overflowing-auto-margin-left-zero", uml == 0)
		}
	case mlAuto:
		if fits {
			vx.Assert("margin-left-takes-the-rest", vx.ApproxEq(float64(uml), float64(free-mr.V())))
			vx.Assert("width-equation", vx.ApproxEq(float64(uml+umr+pb+w), float64(cb)))
		}
	case mrAuto:
		if fits {
			vx.Assert("margin-right-takes-the-rest", vx.ApproxEq(float64(umr), float64(free-ml.V())))
			vx.Assert("width-equation", vx.ApproxEq(float64(uml+umr+pb+w), float64(cb)))
		}
	default:
		vx.Reach("region:over-constrained-ltr")
		vx.Assert("specified-margin-left-kept", uml == ml.V())
		vx.Assert("width-equation-over-constrained", vx.ApproxEq(float64(uml+umr+pb+w), float64(cb)))
	}
}
