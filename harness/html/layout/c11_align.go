//go:build verif

package layout

import (
	pr "github.com/benoitkugler/webrender/css/properties"
	bo "github.com/benoitkugler/webrender/html/boxes"
	"github.com/benoitkugler/webrender/vx"
)

// text-align: the offset of a line's content inside the available width (start, end,
// centre; left/right mapped through the direction; never pushing the content outside).
func VxH_C11_align() {
	w, avail := pr.Float(vx.F32("line-width")), pr.Float(vx.F32("available-width"))
	vx.Assume(vx.And(w >= 0, avail >= 0))
	aligns := []pr.String{"start", "end", "left", "right", "center"}
	lasts := []pr.String{"auto", "start", "end", "left", "right", "center"}
	st := newVxStyle()
	align := aligns[vx.Choose("text-align", len(aligns))]
	alignLast := lasts[vx.Choose("text-align-last", len(lasts))]
	dir := []pr.String{"ltr", "rtl"}[vx.Choose("direction", 2)]
	st.SetTextAlignAll(align)
	st.SetTextAlignLast(alignLast)
	st.SetDirection(dir)
	line := &bo.LineBox{}
	line.Box().Style = st
	line.Box().Width = w
	last := vx.Bool("last-line")
	got := textAlign(nil, line, avail, last)
	vx.Reach("aligned")
	eff := align
	if last && alignLast != "auto" {
		eff = alignLast
	}
	if eff == "left" {
		eff = map[pr.String]pr.String{"ltr": "start", "rtl": "end"}[dir]
	} else if eff == "right" {
		eff = map[pr.String]pr.String{"ltr": "end", "rtl": "start"}[dir]
	}
	want := 0.0
	if w < avail {
		switch eff {
		case "end":
			want = float64(avail - w)
		case "center":
			want = float64(avail-w) / 2
		}
	}
	vx.Assert("text-align-offset", vx.RealEq(float64(got), want))
	vx.Assert("content-stays-inside", vx.Or(w > avail, vx.And(got >= 0, float64(got)+float64(w) <= float64(avail)+0.001)))
}
