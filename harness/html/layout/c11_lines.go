//go:build verif

package layout

import (
	pr "github.com/benoitkugler/webrender/css/properties"
	bo "github.com/benoitkugler/webrender/html/boxes"
	"github.com/benoitkugler/webrender/html/tree"
	"github.com/benoitkugler/webrender/text"
	"github.com/benoitkugler/webrender/utils"
	"github.com/benoitkugler/webrender/vx"
)

type vxLine struct {
	text        string // text of the line, in order
	left, right pr.Float
	y, height   pr.Float
	nText       int
}

func vxLineOf(line Box) vxLine {
	out := vxLine{y: line.Box().PositionY, height: line.Box().Height.V()}
	first := true
	var walk func(b Box)
	walk = func(b Box) {
		f := b.Box()
		l, r := f.PositionX, f.PositionX+f.MarginWidth()
		if first || l < out.left {
			out.left = l
		}
		if first || r > out.right {
			out.right = r
		}
		first = false
		if t, ok := b.(*bo.TextBox); ok {
			out.text += string(t.Text)
			out.nText++
		}
		for _, c := range f.Children {
			walk(c)
		}
	}
	for _, c := range line.Box().Children {
		walk(c)
	}
	return out
}

// line breaking with a metric-exact font model (every rune an em square of 10px): a paragraph
// in a container of symbolic width.
func VxH_C11_lines() {
	variant := vx.Choose("variant", 6+vx.Tier())
	align := vx.Choose("align", 3)
	aligns := []string{"left", "right", "center"}
	var body, ws, extra string
	// words of the paragraph in order, and where a line feed is preserved (before word k)
	var words []string
	forcedBefore := -1
	switch variant {
	case 0:
		body, ws = "aa bbb c dddd ee", "normal"
		words = []string{"aa", "bbb", "c", "dddd", "ee"}
	case 1:
		body, ws = "aa bbb\nc dddd ee", "pre-line"
		words = []string{"aa", "bbb", "c", "dddd", "ee"}
		forcedBefore = 2
	case 2:
		body, ws = "aa <span>bbb c</span> dddd ee", "normal"
		extra = "span{padding-left:5px;padding-right:15px} "
		words = []string{"aa", "bbb", "c", "dddd", "ee"}
	case 3:
		body, ws = "aa bbb c", "nowrap"
		words = []string{"aa", "bbb", "c"}
	case 4:
		body, ws = "aa <span>bbb c</span> dddd ee", "pre-line"
		extra = "span{padding-left:5px;padding-right:15px} "
		words = []string{"aa", "bbb", "c", "dddd", "ee"}
	case 5:
		// an inline box with a wide start spacing, glued to the text that follows it
		body, ws = "<span>aaa bbb cc</span>ddd", "normal"
		extra = "span{padding-left:40px} "
		words = []string{"aaa", "bbb", "ccddd"}
	case 6:
		body, ws = "aa <span>bbb c</span> dddd ee", "normal"
		extra = "span{padding-left:5px;padding-right:15px} p{direction:rtl} "
		words = []string{"aa", "bbb", "c", "dddd", "ee"}
	}
	indent := pr.Float(0) // text-indent, first line only
	if variant == 0 && vx.Choose("text-indent", 2) == 1 {
		indent = 20
		extra += "p{text-indent:20px} "
	}
	W := pr.Float(vx.F32("width"))
	vx.Assume(vx.And(W >= 10, W <= 200))
	css := "html,body{margin:0;padding:0} p{display:block;margin:0;font-size:10px;line-height:10px;white-space:" + ws + ";text-align:" + aligns[align] + "} " + extra
	src := "<html><head><style>head{display:none} " + css + "</style></head><body><p>" + body + "</p></body></html>"
	doc, err := tree.NewHTML(utils.InputString(src), "", nil, "")
	if err != nil {
		panic(err)
	}
	D := func(p pr.KnownProp, v pr.DeclaredValue) tree.VxDecl { return tree.VxDecl{Prop: p, Value: v} }
	sheet := tree.VxSheet(tree.VxRule{Tag: "p", Decls: []tree.VxDecl{D(pr.PWidth, vxPxV(W))}})
	pages := Layout(doc, []tree.CSS{sheet}, false, text.VxAhem{})
	vx.Reach("laid-out")
	p := vxFind(pages[0], "p")
	vx.Assert("paragraph-exists", p != nil && len(p.Children) > 0)
	X := p.ContentBoxX()
	var lines []vxLine
	for _, c := range p.Children {
		vx.Assert("paragraph-holds-lines", bo.LineT.IsInstance(c))
		lines = append(lines, vxLineOf(c))
	}
	eq := func(a, b pr.Float) bool { return vx.ApproxEq(float64(a), float64(b)) }
	// words, in order, exactly once
	all := ""
	for i, l := range lines {
		if i > 0 {
			all += " "
		}
		all += l.text
	}
	want := ""
	for i, w := range words {
		if i > 0 {
			want += " "
		}
		want += w
	}
	vx.ObserveString("lines", all)
	vx.Assert("every-word-once-in-order", all == want)
	plain := variant == 0 || variant == 1 || variant == 3
	k := 0 // index of the next expected word
	for i, l := range lines {
		id := string(rune('0' + i))
		t := l.text
		vx.Assert("no-leading-space:"+id, len(t) > 0 && t[0] != ' ')
		vx.Assert("no-trailing-space:"+id, len(t) > 0 && t[len(t)-1] != ' ')
		single := true
		for _, ch := range t {
			if ch == ' ' {
				single = false
			}
		}
		used := l.right - l.left
		ind := pr.Float(0)
		if i == 0 {
			ind = indent
		}
		if ws != "nowrap" {
			vx.Assert("line-fits-or-single-unit:"+id, vx.Or(single, float64(used+ind) <= float64(W)+1e-3))
		} else {
			vx.Assert("nowrap-single-line", len(lines) == 1)
		}
		if plain {
			vx.Assert("line-width-is-text-width:"+id, eq(used, pr.Float(10*len(t))))
		}
		// alignment of a line that fits
		if float64(used+ind) <= float64(W) {
			switch aligns[align] {
			case "left":
				vx.Assert("align-left:"+id, eq(l.left, X+ind))
			case "right":
				vx.Assert("align-right:"+id, eq(l.right, X+W))
			case "center":
				vx.Assert("align-center:"+id, eq(l.left-(X+ind), X+W-l.right))
			}
		}
		// stacking
		vx.Assert("line-height:"+id, eq(l.height, 10))
		if i > 0 {
			vx.Assert("lines-stack:"+id, eq(l.y, lines[i-1].y+lines[i-1].height))
		} else {
			vx.Assert("first-line-at-top", eq(l.y, p.ContentBoxY()))
		}
		// greedy: the first word of the next line would not have fitted on this one
		nw := 0
		for _, ch := range t {
			if ch == ' ' {
				nw++
			}
		}
		k += nw + 1
		if (plain || variant == 5) && ws != "nowrap" && i+1 < len(lines) && k < len(words) && k != forcedBefore {
			next := pr.Float(10 * len(words[k]))
			vx.Assert("break-only-when-next-word-does-not-fit:"+id, float64(used+ind+10+next) > float64(W))
		}
		if k == forcedBefore && i+1 < len(lines) {
			vx.Reach("preserved-line-feed")
		}
	}
	if forcedBefore >= 0 {
		// the preserved line feed ends a line: no line holds both neighbours
		for _, l := range lines {
			vx.Assert("line-feed-breaks", !vxContains(l.text, words[forcedBefore-1]+" "+words[forcedBefore]))
		}
	}
	if len(lines) > 1 {
		vx.Reach("wrapped")
	}
}

func vxContains(s, sub string) bool {
	for i := 0; i+len(sub) <= len(s); i++ {
		if s[i:i+len(sub)] == sub {
			return true
		}
	}
	return false
}
