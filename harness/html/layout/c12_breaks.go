//go:build verif

package layout

import (
	pr "github.com/benoitkugler/webrender/css/properties"
	bo "github.com/benoitkugler/webrender/html/boxes"
	"github.com/benoitkugler/webrender/html/tree"
	"github.com/benoitkugler/webrender/utils"
	"github.com/benoitkugler/webrender/vx"
)

func vxPageOf(pages []*bo.PageBox, tag string) (int, *bo.BoxFields) {
	for i, p := range pages {
		if f := vxFind(p, tag); f != nil {
			return i, f
		}
	}
	return -1, nil
}

// three blocks on 100px-high pages: forced breaks start a new page of the requested side
// (inserting a blank page when needed), content never passes the page bottom when a break
// between the blocks is allowed, and a page ends early only when the next block does not fit.
func VxH_C12_breaks() {
	doc, err := tree.NewHTML(utils.InputString("<html><body><section></section><article></article><aside></aside></body></html>"), "", nil, "")
	if err != nil {
		panic(err)
	}
	rng := func(id string, lo, hi pr.Float) pr.Float {
		v := pr.Float(vx.F32(id))
		vx.Assume(vx.And(v >= lo, v <= hi))
		return v
	}
	ha, hb, hc := rng("ha", 10, 90), rng("hb", 10, 90), rng("hc", 10, 90)
	breaks := []pr.String{"auto", "page", "left", "right", "avoid"}
	bb := breaks[vx.Choose("break-before-b", len(breaks))]
	ba := breaks[vx.Choose("break-after-a", len(breaks))]
	D := func(p pr.KnownProp, v pr.DeclaredValue) tree.VxDecl { return tree.VxDecl{Prop: p, Value: v} }
	zero := vxPxV(0)
	blk := pr.Display{"block", "flow"}
	sheet := tree.VxSheet(
		tree.VxRule{Tag: "html", Decls: []tree.VxDecl{D(pr.PMarginTop, zero), D(pr.PMarginBottom, zero)}},
		tree.VxRule{Tag: "body", Decls: []tree.VxDecl{D(pr.PMarginTop, zero), D(pr.PMarginBottom, zero), D(pr.PMarginLeft, zero), D(pr.PMarginRight, zero)}},
		tree.VxRule{Tag: "section", Decls: []tree.VxDecl{D(pr.PDisplay, blk), D(pr.PHeight, vxPxV(ha)), D(pr.PBreakAfter, ba)}},
		tree.VxRule{Tag: "article", Decls: []tree.VxDecl{D(pr.PDisplay, blk), D(pr.PHeight, vxPxV(hb)), D(pr.PBreakBefore, bb)}},
		tree.VxRule{Tag: "aside", Decls: []tree.VxDecl{D(pr.PDisplay, blk), D(pr.PHeight, vxPxV(hc))}},
	)
	page := tree.VxPageSheet(D(pr.PSize, pr.Point{pr.Dimension{Value: 100, Unit: pr.Px}, pr.Dimension{Value: 100, Unit: pr.Px}}),
		D(pr.PMarginTop, zero), D(pr.PMarginBottom, zero), D(pr.PMarginLeft, zero), D(pr.PMarginRight, zero))
	pages := Layout(doc, []tree.CSS{sheet, page}, false, nil)
	vx.Reach("laid-out")
	pa, fa := vxPageOf(pages, "section")
	pb, fb := vxPageOf(pages, "article")
	pc, fc := vxPageOf(pages, "aside")
	vx.Assert("all-blocks-laid-out", fa != nil && fb != nil && fc != nil)
	for _, p := range pages {
		vx.Assert("page-size", p.Box().Width == pr.Float(100) && p.Box().Height == pr.Float(100))
	}
	vx.Assert("first-block-on-first-page", pa == 0 && vx.ApproxEq(float64(fa.PositionY), 0))
	forced := func(v pr.String) bool { return v == "page" || v == "left" || v == "right" }
	side := pr.String("")
	if forced(ba) && ba != "page" {
		side = ba
	}
	if forced(bb) && bb != "page" { // later values win
		side = bb
	}
	isForced := forced(ba) || forced(bb)
	// expected page of b: the first page is a right page (ltr)
	wantB := 0
	yB := ha
	if isForced {
		wantB = 1
		if side == "right" { // page 1 (index 1) is a left page: a blank page is inserted
			wantB = 2
		}
		yB = 0
	} else if ha+hb > 100 {
		wantB, yB = 1, 0 // does not fit: the only earlier break opportunity is between a and b
	}
	vx.Assert("second-block-page", pb == wantB)
	vx.Assert("second-block-position", vx.ApproxEq(float64(fb.PositionY), float64(yB)))
	if wantB == 2 {
		vx.Reach("blank-page-inserted")
		vx.Assert("blank-page-is-empty", vxFind(pages[1], "section") == nil && vxFind(pages[1], "article") == nil && vxFind(pages[1], "aside") == nil)
	}
	// c follows greedily
	wantC, yC := wantB, yB+hb
	if yB+hb+hc > 100 {
		wantC, yC = wantB+1, 0
	}
	vx.Assert("third-block-page", pc == wantC)
	vx.Assert("third-block-position", vx.ApproxEq(float64(fc.PositionY), float64(yC)))
	vx.Assert("page-count", len(pages) == wantC+1)
	vx.Assert("content-within-page", vx.And(fb.PositionY+hb <= 100.0001, fc.PositionY+hc <= 100.0001))
}

// page box geometry: margin + border + padding + content = page size on both axes, with the
// auto rules of a block (auto width fills; auto margins are 0 or centre / take the rest).
func VxH_C12_pagebox() {
	doc, err := tree.NewHTML(utils.InputString("<html><body></body></html>"), "", nil, "")
	if err != nil {
		panic(err)
	}
	rng := func(id string, lo, hi pr.Float) pr.Float {
		v := pr.Float(vx.F32(id))
		vx.Assume(vx.And(v >= lo, v <= hi))
		return v
	}
	W, H := rng("W", 100, 1000), rng("H", 100, 1000)
	D := func(p pr.KnownProp, v pr.DeclaredValue) tree.VxDecl { return tree.VxDecl{Prop: p, Value: v} }
	auto := pr.SToV("auto")
	lenOrAuto := func(id string, lo, hi pr.Float) (pr.DimOrS, bool, pr.Float) {
		if vx.Bool(id + "-auto") {
			return auto, true, 0
		}
		v := rng(id, lo, hi)
		return vxPxV(v), false, v
	}
	ml, mlAuto, mlV := lenOrAuto("ml", 0, 20)
	mr, mrAuto, mrV := lenOrAuto("mr", 0, 20)
	wd, wAuto, wV := lenOrAuto("w", 10, 50)
	mt, mtAuto, mtV := lenOrAuto("mt", 0, 20)
	pad := rng("pad", 0, 10)
	page := tree.VxPageSheet(D(pr.PSize, pr.Point{pr.Dimension{Value: W, Unit: pr.Px}, pr.Dimension{Value: H, Unit: pr.Px}}),
		D(pr.PMarginLeft, ml), D(pr.PMarginRight, mr), D(pr.PWidth, wd), D(pr.PMarginTop, mt), D(pr.PMarginBottom, vxPxV(0)),
		D(pr.PPaddingLeft, vxPxV(pad)), D(pr.PPaddingTop, vxPxV(pad)))
	pages := Layout(doc, []tree.CSS{page}, false, nil)
	vx.Reach("laid-out")
	vx.Assert("one-page", len(pages) == 1)
	f := pages[0].Box()
	eq := func(a, b pr.Float) bool { return vx.ApproxEq(float64(a), float64(b)) }
	if !wAuto && !mlAuto && !mrAuto {
		// over-constrained: css-page resizes the containing block instead of ignoring a margin
		vx.Reach("over-constrained")
		vx.Assert("over-constrained-values-kept", vx.And(eq(f.MarginLeft.V(), mlV), vx.And(eq(f.MarginRight.V(), mrV), eq(f.Width.V(), wV))))
		return
	}
	vx.Assert("horizontal-sum", eq(f.MarginLeft.V()+f.PaddingLeft.V()+f.Width.V()+f.PaddingRight.V()+f.MarginRight.V()+f.BorderLeftWidth.V()+f.BorderRightWidth.V(), W))
	vx.Assert("vertical-sum", eq(f.MarginTop.V()+f.PaddingTop.V()+f.Height.V()+f.PaddingBottom.V()+f.MarginBottom.V()+f.BorderTopWidth.V()+f.BorderBottomWidth.V(), H))
	switch {
	case wAuto:
		if mlAuto {
			vx.Assert("auto-margin-with-auto-width-is-zero", f.MarginLeft.V() == 0)
		} else {
			vx.Assert("margin-left-kept", eq(f.MarginLeft.V(), mlV))
		}
	case mlAuto && mrAuto:
		vx.Assert("page-content-centred", eq(f.MarginLeft.V(), f.MarginRight.V()))
		vx.Assert("width-kept", eq(f.Width.V(), wV))
	case mlAuto:
		vx.Assert("margin-right-kept", eq(f.MarginRight.V(), mrV))
		vx.Assert("width-kept", eq(f.Width.V(), wV))
	case mrAuto:
		vx.Assert("margin-left-kept", eq(f.MarginLeft.V(), mlV))
		vx.Assert("width-kept", eq(f.Width.V(), wV))
	}
	if !mtAuto {
		vx.Assert("margin-top-kept", eq(f.MarginTop.V(), mtV))
	}
}
