//go:build verif

package layout

import (
	pr "github.com/benoitkugler/webrender/css/properties"
	"github.com/benoitkugler/webrender/html/tree"
	"github.com/benoitkugler/webrender/utils"
	"github.com/benoitkugler/webrender/vx"
)

// named pages: a change of the `page` value between the last in-flow content of one section
// and the first in-flow content of the next forces a page break, and each page box takes the
// size of the @page rule for its name; out-of-flow boxes (floats, absolutely positioned) at the
// edges of a section do not take part.
func VxH_C12_named_pages() {
	names := []string{"", "a", "b"}
	heights := map[string]pr.Float{"": 100, "a": 120, "b": 140}
	n1 := names[vx.Choose("page-1", 3)]
	n2 := names[vx.Choose("page-2", 3)]
	oofs := []string{"", "<x-o class=f></x-o>", "<x-o class=p></x-o>"}
	trailing := oofs[vx.Choose("trailing-out-of-flow", 3)]
	leading := oofs[vx.Choose("leading-out-of-flow", 3)]
	cls := func(n string) string {
		if n == "" {
			return ""
		}
		return " class=" + n
	}
	css := "@page{size:100px 100px;margin:0} @page a{size:100px 120px} @page b{size:100px 140px} " +
		"html,body{margin:0} head{display:none} section,x-d,x-o{display:block} x-d{height:10px} .a{page:a} .b{page:b} " +
		"x-o{width:5px;height:5px} .f{float:left} .p{position:absolute} "
	src := "<html><head><style>" + css + "</style></head><body><section><x-d id=d1" + cls(n1) + "></x-d>" + trailing + "</section>" +
		"<section>" + leading + "<x-d id=d2" + cls(n2) + "></x-d></section></body></html>"
	doc, err := tree.NewHTML(utils.InputString(src), "", nil, "")
	if err != nil {
		panic(err)
	}
	pages := Layout(doc, nil, false, nil)
	vx.Reach("laid-out")
	find := func(id string) int {
		for i, p := range pages {
			found := false
			var walk func(b Box)
			walk = func(b Box) {
				if el := b.Box().Element; el != nil && b.Box().ElementTag() == "x-d" {
					for _, a := range el.Attr {
						if a.Key == "id" && a.Val == id {
							found = true
						}
					}
				}
				for _, c := range b.Box().Children {
					walk(c)
				}
			}
			walk(p)
			if found {
				return i
			}
		}
		return -1
	}
	p1, p2 := find("d1"), find("d2")
	vx.Assert("both-laid-out", p1 >= 0 && p2 >= 0)
	if n1 == n2 {
		vx.Reach("same-page-name")
		vx.Assert("no-break-without-a-change-of-page-name", len(pages) == 1 && p1 == 0 && p2 == 0)
		vx.Assert("page-size-of-its-name", pages[0].Height == heights[n1])
	} else {
		vx.Reach("page-name-changes")
		if n1 != "" && n2 == "" {
			// back from a named page to the default one
			vx.Reach("region:named-page-back-to-default")
		}
		vx.Assert("change-of-page-name-forces-a-break", len(pages) == 2 && p1 == 0 && p2 == 1)
		if len(pages) == 2 {
			vx.Assert("first-page-size-of-its-name", pages[0].Height == heights[n1])
			vx.Assert("second-page-size-of-its-name", pages[1].Height == heights[n2])
		}
	}
}
