//go:build verif

package layout

import (
	pr "github.com/benoitkugler/webrender/css/properties"
	bo "github.com/benoitkugler/webrender/html/boxes"
	"github.com/benoitkugler/webrender/html/tree"
	"github.com/benoitkugler/webrender/text"
	"github.com/benoitkugler/webrender/utils"
	"github.com/benoitkugler/webrender/vx"
)

// lines of the first <p> fragment of a page, as texts
func vxPageLines(page *bo.PageBox) []string {
	var out []string
	var walk func(b Box)
	walk = func(b Box) {
		if bo.LineT.IsInstance(b) {
			out = append(out, vxLineOf(b).text)
			return
		}
		for _, c := range b.Box().Children {
			walk(c)
		}
	}
	walk(page)
	return out
}

// vxConformingBreak reports whether a page that starts with rem lines left (first: the
// paragraph starts on it) has a break position honouring orphans and widows: k lines stay
// (k <= c, k < rem), k >= orphans, k >= widows when the fragment itself follows a break, and at
// least widows lines go to the next page.
func vxConformingBreak(rem, c, orphans, widows int, first bool, k int) bool {
	if k < 1 || k > c || k >= rem {
		return false
	}
	if k < orphans || rem-k < widows {
		return false
	}
	if !first && k < widows {
		return false
	}
	return true
}

// a paragraph of N one-word lines (10px each) on pages of symbolic height: every line is laid
// out exactly once and in order, no page holds more lines than fit, and orphans / widows are
// honoured on every page where some break position conforms (pages before it taken as laid out).
func VxH_C12_paragraph() {
	words := []string{"aaa", "bbb", "ccc", "ddd", "eee", "fff", "ggg"}
	n := 3 + vx.Choose("lines", 3+vx.Tier())
	orphans := 1 + vx.Choose("orphans", 3)
	widows := 1 + vx.Choose("widows", 3)
	H := pr.Float(vx.F32("page-height"))
	vx.Assume(vx.And(H >= 15, H <= 75))
	body := ""
	for i := 0; i < n; i++ {
		if i > 0 {
			body += " "
		}
		body += words[i]
	}
	css := "html,body{margin:0;padding:0} p{display:block;margin:0;width:30px;font-size:10px;line-height:10px;orphans:" +
		string(rune('0'+orphans)) + ";widows:" + string(rune('0'+widows)) + "} "
	src := "<html><head><style>head{display:none} " + css + "</style></head><body><p>" + body + "</p></body></html>"
	doc, err := tree.NewHTML(utils.InputString(src), "", nil, "")
	if err != nil {
		panic(err)
	}
	D := func(p pr.KnownProp, v pr.DeclaredValue) tree.VxDecl { return tree.VxDecl{Prop: p, Value: v} }
	zero := vxPxV(0)
	page := tree.VxPageSheet(D(pr.PSize, pr.Point{pr.Dimension{Value: 100, Unit: pr.Px}, pr.Dimension{Value: H, Unit: pr.Px}}),
		D(pr.PMarginTop, zero), D(pr.PMarginBottom, zero), D(pr.PMarginLeft, zero), D(pr.PMarginRight, zero))
	pages := Layout(doc, []tree.CSS{page}, false, text.VxAhem{})
	vx.Reach("laid-out")
	// capacity of a page in lines
	c := 1
	for float64(c+1)*10 <= float64(H) {
		c++
	}
	var frags [][]string
	k := 0
	inOrder := true
	for _, p := range pages {
		ls := vxPageLines(p)
		frags = append(frags, ls)
		for _, t := range ls {
			if k >= n || t != words[k] {
				inOrder = false
			}
			k++
		}
	}
	vx.Assert("every-line-once-in-order", inOrder && k == n)
	for i, f := range frags {
		id := string(rune('0' + i))
		vx.Assert("page-not-overfull:"+id, len(f) <= c)
		vx.Assert("no-empty-page:"+id, len(f) > 0)
	}
	if len(frags) > 1 {
		vx.Reach("paragraph-split")
	}
	rem := n
	for i, f := range frags {
		id := string(rune('0' + i))
		if i+1 < len(frags) {
			exists := false
			for k := 1; k <= c; k++ {
				if vxConformingBreak(rem, c, orphans, widows, i == 0, k) {
					exists = true
				}
			}
			if exists {
				vx.Reach("conforming-break-exists")
				vx.Assert("orphans-widows-honoured:"+id, vxConformingBreak(rem, c, orphans, widows, i == 0, len(f)))
			}
		}
		rem -= len(f)
	}
	if orphans == 1 && widows == 1 {
		// plain greedy filling
		for i, f := range frags {
			if i+1 < len(frags) {
				vx.Assert("page-full-before-break:"+string(rune('0'+i)), len(f) == c)
			}
		}
	}
}

// break-before: avoid between two paragraphs: the break between them is taken only when the
// first paragraph offers no conforming break position of its own (orphans / widows 2) on that page.
func VxH_C12_avoid_paragraph() {
	wordsA := []string{"aaa", "bbb", "ccc", "ddd", "eee"}
	n := 3 + vx.Choose("lines-a", 3)
	avoid := vx.Choose("break-before-b", 2) == 1
	H := pr.Float(vx.F32("page-height"))
	vx.Assume(vx.And(H >= 25, H <= 75))
	a := ""
	for i := 0; i < n; i++ {
		if i > 0 {
			a += " "
		}
		a += wordsA[i]
	}
	bstyle := ""
	if avoid {
		bstyle = " style=\"break-before:avoid\""
	}
	css := "html,body{margin:0;padding:0} p{display:block;margin:0;width:30px;font-size:10px;line-height:10px;orphans:2;widows:2} "
	src := "<html><head><style>head{display:none} " + css + "</style></head><body><p>" + a + "</p><p" + bstyle + ">xxx yyy</p></body></html>"
	doc, err := tree.NewHTML(utils.InputString(src), "", nil, "")
	if err != nil {
		panic(err)
	}
	D := func(p pr.KnownProp, v pr.DeclaredValue) tree.VxDecl { return tree.VxDecl{Prop: p, Value: v} }
	zero := vxPxV(0)
	page := tree.VxPageSheet(D(pr.PSize, pr.Point{pr.Dimension{Value: 100, Unit: pr.Px}, pr.Dimension{Value: H, Unit: pr.Px}}),
		D(pr.PMarginTop, zero), D(pr.PMarginBottom, zero), D(pr.PMarginLeft, zero), D(pr.PMarginRight, zero))
	pages := Layout(doc, []tree.CSS{page}, false, text.VxAhem{})
	vx.Reach("laid-out")
	c := 1
	for float64(c+1)*10 <= float64(H) {
		c++
	}
	want := append(append([]string{}, wordsA[:n]...), "xxx", "yyy")
	k := 0
	ok := true
	var frags [][]string
	for _, p := range pages {
		ls := vxPageLines(p)
		frags = append(frags, ls)
		for _, t := range ls {
			if k >= len(want) || t != want[k] {
				ok = false
			}
			k++
		}
	}
	vx.Assert("every-line-once-in-order", ok && k == len(want))
	for i, f := range frags {
		vx.Assert("page-not-overfull:"+string(rune('0'+i)), len(f) <= c)
	}
	if !avoid {
		return
	}
	// does a page end exactly between the two paragraphs?
	for i, f := range frags {
		if len(f) > 0 && f[len(f)-1] == wordsA[n-1] && i+1 < len(frags) {
			vx.Reach("break-between-the-paragraphs")
			// lines of the first paragraph on this page, and whether the paragraph starts on it
			fa := len(f)
			starts := f[0] == wordsA[0]
			lo := 2 // orphans
			if !starts {
				lo = 2 // widows of the fragment continued from the previous page
			}
			conforming := fa-2 >= lo // a position j with lo <= j <= fa - widows
			vx.Assert("avoid-honoured-when-the-paragraph-can-break", !conforming)
		}
	}
}
