//go:build verif

package layout

import (
	pr "github.com/benoitkugler/webrender/css/properties"
	bo "github.com/benoitkugler/webrender/html/boxes"
	"github.com/benoitkugler/webrender/html/tree"
	"github.com/benoitkugler/webrender/utils"
	"github.com/benoitkugler/webrender/vx"
)

func vxAll(b Box, pred func(Box) bool, out *[]Box) {
	if pred(b) {
		*out = append(*out, b)
	}
	for _, c := range b.Box().Children {
		vxAll(c, pred, out)
	}
}

// a 2-column table (fixed or auto layout, ltr or rtl) with a spanning cell in its second
// row: cells of a column share their edges, the spanning cell covers both columns and the
// spacing between them, columns and spacing fill the used width, nothing is negative.
func VxH_C13_columns() {
	doc, err := tree.NewHTML(utils.InputString("<html><body><table><tr><td></td><th></th></tr><tr><td colspan=2></td></tr></table></body></html>"), "", nil, "")
	if err != nil {
		panic(err)
	}
	rng := func(id string, lo, hi pr.Float) pr.Float {
		v := pr.Float(vx.F32(id))
		vx.Assume(vx.And(v >= lo, v <= hi))
		return v
	}
	W := rng("table-width", 50, 300)
	w1, w2 := rng("w1", 0, 200), rng("w2", 0, 200)
	sp := rng("spacing", 0, 10)
	h1, h2 := rng("h1", 5, 40), rng("h2", 5, 40)
	hr := rng("row-height", 0, 60)
	layout := []pr.String{"fixed", "auto"}[vx.Choose("table-layout", 2)]
	dir := []pr.String{"ltr", "rtl"}[vx.Choose("direction", 2)]
	D := func(p pr.KnownProp, v pr.DeclaredValue) tree.VxDecl { return tree.VxDecl{Prop: p, Value: v} }
	zero := vxPxV(0)
	sheet := tree.VxSheet(
		tree.VxRule{Tag: "table", Decls: []tree.VxDecl{D(pr.PTableLayout, layout), D(pr.PWidth, vxPxV(W)), D(pr.PDirection, dir),
			D(pr.PBorderSpacing, pr.Point{pr.Dimension{Value: sp, Unit: pr.Px}, pr.Dimension{Value: sp, Unit: pr.Px}})}},
		tree.VxRule{Tag: "tr", Decls: []tree.VxDecl{D(pr.PHeight, vxPxV(hr))}},
		tree.VxRule{Tag: "td", Decls: []tree.VxDecl{D(pr.PWidth, vxPxV(w1)), D(pr.PHeight, vxPxV(h1)), D(pr.PPaddingLeft, zero), D(pr.PPaddingRight, zero), D(pr.PPaddingTop, zero), D(pr.PPaddingBottom, zero)}},
		tree.VxRule{Tag: "th", Decls: []tree.VxDecl{D(pr.PWidth, vxPxV(w2)), D(pr.PHeight, vxPxV(h2)), D(pr.PPaddingLeft, zero), D(pr.PPaddingRight, zero), D(pr.PPaddingTop, zero), D(pr.PPaddingBottom, zero)}},
	)
	pages := Layout(doc, []tree.CSS{sheet}, false, nil)
	vx.Reach("laid-out")
	var tables, cells []Box
	vxAll(pages[0], func(b Box) bool { return bo.TableT.IsInstance(b) }, &tables)
	vxAll(pages[0], func(b Box) bool { return bo.TableCellT.IsInstance(b) }, &cells)
	vx.Assert("structure", len(tables) == 1 && len(cells) == 3)
	t := tables[0].Box()
	a, b, c := cells[0].Box(), cells[1].Box(), cells[2].Box() // row 1: a, b ; row 2: c spans both
	eq := func(x, y pr.Float) bool { return vx.ApproxEq(float64(x), float64(y)) }
	left := func(f *bo.BoxFields) pr.Float { return f.BorderBoxX() }
	right := func(f *bo.BoxFields) pr.Float { return f.BorderBoxX() + f.BorderWidth() }
	vx.Assert("no-negative-width", vx.And(a.Width.V() >= 0, vx.And(b.Width.V() >= 0, c.Width.V() >= 0)))
	vx.Assert("used-width-at-least-specified", t.Width.V() >= W-0.001)
	tl, tr := t.ContentBoxX(), t.ContentBoxX()+t.Width.V()
	first, second := a, b // in rtl column 0 is on the right
	if dir == "rtl" {
		first, second = b, a
	}
	vx.Assert("first-column-starts-after-spacing", eq(left(first), tl+sp))
	vx.Assert("columns-separated-by-spacing", eq(right(first)+sp, left(second)))
	vx.Assert("last-column-ends-before-spacing", eq(right(second)+sp, tr))
	vx.Assert("spanning-cell-left-edge", eq(left(c), left(first)))
	vx.Assert("spanning-cell-right-edge", eq(right(c), right(second)))
	// rows: cells of a row share their top edge and height; rows are separated by the spacing
	vx.Assert("row-top-shared", eq(a.BorderBoxY(), b.BorderBoxY()))
	vx.Assert("row-height-shared", eq(a.BorderHeight(), b.BorderHeight()))
	vx.Assert("rows-separated-by-spacing", eq(a.BorderBoxY()+a.BorderHeight()+sp, c.BorderBoxY()))
	vx.Assert("row-height-covers-cells", vx.And(a.BorderHeight() >= h1-0.001, a.BorderHeight() >= h2-0.001))
	var rows []Box
	vxAll(pages[0], func(b Box) bool { return bo.TableRowT.IsInstance(b) }, &rows)
	vx.Assert("two-rows", len(rows) == 2)
	r0 := rows[0].Box()
	vx.Assert("row-height-is-cell-height", eq(r0.Height.V(), a.BorderHeight()))
	vx.Assert("row-height-at-least-specified", r0.Height.V() >= hr-0.001)
	vx.Assert("cell-padding-not-negative", vx.And(a.PaddingBottom.V() >= -0.001, b.PaddingBottom.V() >= -0.001))
}

// fixed table layout with a column that has no width: the widths are never negative, columns
// and spacing fill the used table width exactly, and the used width is at least the specified
// one (a table too narrow for its specified columns and spacing grows).
func VxH_C13_fixed_auto_column() {
	doc, err := tree.NewHTML(utils.InputString("<html><head><style>head{display:none} .c{width:auto}</style></head><body><table><tr><td></td><th></th><td class=c></td></tr></table></body></html>"), "", nil, "")
	if err != nil {
		panic(err)
	}
	rng := func(id string, lo, hi pr.Float) pr.Float {
		v := pr.Float(vx.F32(id))
		vx.Assume(vx.And(v >= lo, v <= hi))
		return v
	}
	W := rng("table-width", 20, 300)
	w1, w2 := rng("w1", 0, 150), rng("w2", 0, 150)
	sp := rng("spacing", 0, 20)
	D := func(p pr.KnownProp, v pr.DeclaredValue) tree.VxDecl { return tree.VxDecl{Prop: p, Value: v} }
	zero := vxPxV(0)
	pad := []tree.VxDecl{D(pr.PPaddingLeft, zero), D(pr.PPaddingRight, zero), D(pr.PPaddingTop, zero), D(pr.PPaddingBottom, zero), D(pr.PHeight, vxPxV(10))}
	sheet := tree.VxSheet(
		tree.VxRule{Tag: "table", Decls: []tree.VxDecl{D(pr.PTableLayout, pr.String("fixed")), D(pr.PWidth, vxPxV(W)),
			D(pr.PBorderSpacing, pr.Point{pr.Dimension{Value: sp, Unit: pr.Px}, pr.Dimension{Value: sp, Unit: pr.Px}})}},
		tree.VxRule{Tag: "td", Decls: append([]tree.VxDecl{D(pr.PWidth, vxPxV(w1))}, pad...)},
		tree.VxRule{Tag: "th", Decls: append([]tree.VxDecl{D(pr.PWidth, vxPxV(w2))}, pad...)},
	)
	pages := Layout(doc, []tree.CSS{sheet}, false, nil)
	vx.Reach("laid-out")
	var tables, cells []Box
	vxAll(pages[0], func(b Box) bool { return bo.TableT.IsInstance(b) }, &tables)
	vxAll(pages[0], func(b Box) bool { return bo.TableCellT.IsInstance(b) }, &cells)
	vx.Assert("structure", len(tables) == 1 && len(cells) == 3)
	t := tables[0].Box()
	a, b, c := cells[0].Box(), cells[1].Box(), cells[2].Box()
	eq := func(x, y pr.Float) bool { return vx.ApproxEq(float64(x), float64(y)) }
	vx.Assert("no-negative-width", vx.And(a.Width.V() >= 0, vx.And(b.Width.V() >= 0, c.Width.V() >= 0)))
	vx.Assert("used-width-at-least-specified", t.Width.V() >= W-0.001)
	vx.Assert("columns-and-spacing-fill-the-table", eq(a.Width.V()+b.Width.V()+c.Width.V()+4*sp, t.Width.V()))
	vx.Assert("specified-columns-kept", vx.And(eq(a.Width.V(), w1), eq(b.Width.V(), w2)))
	if float64(w1+w2+4*sp) <= float64(W) {
		vx.Reach("fits")
		vx.Assert("table-width-as-specified", eq(t.Width.V(), W))
		vx.Assert("auto-column-takes-the-rest", eq(c.Width.V(), W-w1-w2-4*sp))
	} else {
		vx.Reach("too-narrow")
		vx.Assert("auto-column-collapses", eq(c.Width.V(), 0))
	}
}

// automatic table layout with percentage columns under a spanning cell wider than them: the
// column widths are finite, not negative, and with the spacing fill the table width.
func VxH_C13_auto_percent() {
	src := "<html><head><style>head{display:none} html,body{margin:0} .c{width:auto} x-w{display:block;width:400px;height:5px} x-s{display:block;width:20px;height:5px}</style></head>" +
		"<body><table><tr><td></td><th></th><td class=c><x-s></x-s></td></tr><tr><td colspan=2 class=c><x-w></x-w></td><td class=c><x-s></x-s></td></tr></table></body></html>"
	doc, err := tree.NewHTML(utils.InputString(src), "", nil, "")
	if err != nil {
		panic(err)
	}
	rng := func(id string, lo, hi pr.Float) pr.Float {
		v := pr.Float(vx.F32(id))
		vx.Assume(vx.And(v >= lo, v <= hi))
		return v
	}
	p1, p2 := rng("percent-1", 10, 90), rng("percent-2", 10, 90)
	sp := rng("spacing", 0, 10)
	D := func(p pr.KnownProp, v pr.DeclaredValue) tree.VxDecl { return tree.VxDecl{Prop: p, Value: v} }
	zero := vxPxV(0)
	pad := []tree.VxDecl{D(pr.PPaddingLeft, zero), D(pr.PPaddingRight, zero), D(pr.PPaddingTop, zero), D(pr.PPaddingBottom, zero)}
	perc := func(v pr.Float) pr.DimOrS { return pr.Dimension{Value: v, Unit: pr.Perc}.ToValue() }
	sheet := tree.VxSheet(
		tree.VxRule{Tag: "table", Decls: []tree.VxDecl{D(pr.PBorderSpacing, pr.Point{pr.Dimension{Value: sp, Unit: pr.Px}, pr.Dimension{Value: sp, Unit: pr.Px}})}},
		tree.VxRule{Tag: "td", Decls: append([]tree.VxDecl{D(pr.PWidth, perc(p1))}, pad...)},
		tree.VxRule{Tag: "th", Decls: append([]tree.VxDecl{D(pr.PWidth, perc(p2))}, pad...)},
	)
	pages := Layout(doc, []tree.CSS{sheet}, false, nil)
	vx.Reach("laid-out")
	var tables []Box
	vxAll(pages[0], func(b Box) bool { return bo.TableT.IsInstance(b) }, &tables)
	vx.Assert("structure", len(tables) == 1)
	t := tables[0].(bo.TableBoxITF).Table()
	vx.Assert("three-columns", len(t.ColumnWidths) == 3)
	total := sp
	for i, w := range t.ColumnWidths {
		id := string(rune('0' + i))
		vx.Assert("column-width-finite:"+id, vx.Finite(float64(w)))
		vx.Assert("column-width-not-negative:"+id, w >= 0)
		total += w + sp
	}
	vx.Assert("table-width-finite", vx.Finite(float64(t.Width.V())))
	vx.Assert("columns-and-spacing-fill-the-table", vx.ApproxEq(float64(total), float64(t.Width.V())))
}

// automatic layout squeezed by a narrow container: a spanning cell whose own minimum (its
// padding) exceeds the minimum of the columns it spans still gets it — no cell has a negative
// used width and the table is at least as wide as that minimum.
func VxH_C13_auto_span_min() {
	src := "<html><head><style>head{display:none} html,body{margin:0}</style></head>" +
		"<body><section><table><tr><th colspan=2></th></tr><tr><td></td><td></td></tr></table></section></body></html>"
	doc, err := tree.NewHTML(utils.InputString(src), "", nil, "")
	if err != nil {
		panic(err)
	}
	rng := func(id string, lo, hi pr.Float) pr.Float {
		v := pr.Float(vx.F32(id))
		vx.Assume(vx.And(v >= lo, v <= hi))
		return v
	}
	Wc := rng("container-width", 20, 300)
	P := rng("spanning-cell-padding", 0, 80)
	w := rng("column-width", 0, 200)
	D := func(p pr.KnownProp, v pr.DeclaredValue) tree.VxDecl { return tree.VxDecl{Prop: p, Value: v} }
	zero := vxPxV(0)
	sheet := tree.VxSheet(
		tree.VxRule{Tag: "section", Decls: []tree.VxDecl{D(pr.PDisplay, pr.Display{"block", "flow"}), D(pr.PWidth, vxPxV(Wc))}},
		tree.VxRule{Tag: "table", Decls: []tree.VxDecl{D(pr.PBorderSpacing, pr.Point{pr.Dimension{Unit: pr.Px}, pr.Dimension{Unit: pr.Px}})}},
		tree.VxRule{Tag: "th", Decls: []tree.VxDecl{D(pr.PPaddingLeft, vxPxV(P)), D(pr.PPaddingRight, vxPxV(P)), D(pr.PPaddingTop, zero), D(pr.PPaddingBottom, zero), D(pr.PHeight, vxPxV(5))}},
		tree.VxRule{Tag: "td", Decls: []tree.VxDecl{D(pr.PWidth, vxPxV(w)), D(pr.PPaddingLeft, zero), D(pr.PPaddingRight, zero), D(pr.PPaddingTop, zero), D(pr.PPaddingBottom, zero), D(pr.PHeight, vxPxV(5))}},
	)
	if 2*P > 2*w {
		// the spanning cell needs more than the specified widths of the (constrained) columns it spans
		vx.Reach("region:span-minimum-above-constrained-columns")
	}
	pages := Layout(doc, []tree.CSS{sheet}, false, nil)
	vx.Reach("laid-out")
	var tables, cells []Box
	vxAll(pages[0], func(b Box) bool { return bo.TableT.IsInstance(b) }, &tables)
	vxAll(pages[0], func(b Box) bool { return bo.TableCellT.IsInstance(b) }, &cells)
	vx.Assert("structure", len(tables) == 1 && len(cells) == 3)
	t := tables[0].Box()
	for i, c := range cells {
		vx.Assert("cell-width-not-negative:"+string(rune('0'+i)), c.Box().Width.V() >= -1e-3)
	}
	vx.Assert("table-at-least-as-wide-as-the-spanning-cell-minimum", float64(t.Width.V()) >= float64(2*P)-1e-2)
}
