//go:build verif

package layout

import (
	pr "github.com/benoitkugler/webrender/css/properties"
	bo "github.com/benoitkugler/webrender/html/boxes"
	"github.com/benoitkugler/webrender/html/tree"
	"github.com/benoitkugler/webrender/utils"
	"github.com/benoitkugler/webrender/vx"
)

// several floats broken by the same page break: their continuations on the next page are laid
// out in document order, whatever order the map holding them is visited in.
func VxH_C15_broken_floats() {
	n := 2 + vx.Choose("floats", 2)
	tags := []string{"x-a", "x-b", "x-c"}
	css := "@page{size:300px 100px;margin:0} html,body{margin:0} head{display:none} x-k{display:block;height:60px;width:40px} "
	body := ""
	for i := 0; i < n; i++ {
		css += tags[i] + "{display:block;float:left;width:40px} "
		body += "<" + tags[i] + "><x-k></x-k><x-k></x-k></" + tags[i] + ">"
	}
	// in-flow content running over to the second page (without it the page loop stops and the
	// remainders of the floats are dropped: see the known finding of VxH_C02_broken_float)
	css += "x-z{display:block;clear:both} "
	body += "<x-z><x-k></x-k><x-k></x-k></x-z>"
	src := "<html><head><style>" + css + "</style></head><body>" + body + "</body></html>"
	layoutOnce := func() [][2]pr.Float {
		doc, err := tree.NewHTML(utils.InputString(src), "", nil, "")
		if err != nil {
			panic(err)
		}
		pages := Layout(doc, nil, false, nil)
		var out [][2]pr.Float
		for pi, p := range pages {
			for i := 0; i < n; i++ {
				var found []Box
				vxAll(p, func(b Box) bool { return b.Box().ElementTag() == tags[i] && !bo.LineT.IsInstance(b) }, &found)
				for _, f := range found {
					out = append(out, [2]pr.Float{pr.Float(pi*10 + i), f.Box().PositionX})
				}
			}
		}
		return out
	}
	runs := 2
	if !vx.Symbolic() {
		runs = 25
	}
	vx.MapOrderIn("makePage")
	first := layoutOnce()
	same := true
	for r := 1; r < runs; r++ {
		again := layoutOnce()
		if len(again) != len(first) {
			same = false
			continue
		}
		for i := range again {
			if again[i] != first[i] {
				same = false
			}
		}
	}
	vx.MapOrderIn("")
	vx.Reach("laid-out")
	vx.Assert("layout-independent-of-map-order", same)
	// on the second page the continuations stand from left to right in document order
	var xs []pr.Float
	for _, e := range first {
		if e[0] >= 10 && e[0] < 20 {
			xs = append(xs, e[1])
		}
	}
	if len(xs) == n {
		vx.Reach("all-floats-continue")
		for i := 1; i < len(xs); i++ {
			vx.Assert("continuations-in-document-order", xs[i] > xs[i-1])
		}
	}
}
