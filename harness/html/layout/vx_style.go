//go:build verif

package layout

import (
	pr "github.com/benoitkugler/webrender/css/properties"
)

// vxStyle is a computed style backed by a plain property map seeded with the initial values.
type vxStyle struct {
	pr.Properties
	parent pr.ElementStyle
}

func newVxStyle() *vxStyle {
	return &vxStyle{Properties: pr.InitialValues.Copy()}
}

func (s *vxStyle) Set(key pr.PropKey, value pr.CssProperty) { s.Properties[key.KnownProp] = value }
func (s *vxStyle) Get(key pr.PropKey) pr.CssProperty        { return s.Properties[key.KnownProp] }
func (s *vxStyle) Copy() pr.ElementStyle {
	return &vxStyle{Properties: s.Properties.Copy(), parent: s.parent}
}
func (s *vxStyle) ParentStyle() pr.ElementStyle       { return s.parent }
func (s *vxStyle) Variables() map[string]pr.RawTokens { return nil }
func (s *vxStyle) Specified() pr.SpecifiedAttributes  { return pr.SpecifiedAttributes{} }
func (s *vxStyle) Cache() pr.TextRatioCache           { return pr.NewTextRatioCache() }
