//go:build verif

package tree

import (
	"github.com/benoitkugler/webrender/utils"
	"github.com/benoitkugler/webrender/vx"
	"golang.org/x/net/html"
)

// whatever precedes the <html> element (doctype, comments, both, in any order the
// HTML parser keeps), the document root handed to the rest of the pipeline is that element.
func VxH_C01_root() {
	pieces := []string{"", "<!DOCTYPE html>", "<!-- c -->"}
	src := ""
	for i := 0; i < 3; i++ {
		src += pieces[vx.Choose("piece"+string(rune('0'+i)), len(pieces))]
	}
	src += []string{"<html><body><p>x</p></body></html>", "<p>x</p>", "<body>x"}[vx.Choose("body", 3)]
	src += []string{"", "<!-- after -->"}[vx.Choose("trailer", 2)]
	doc, err := NewHTML(utils.InputString(src), "", nil, "")
	vx.Reach("parsed")
	vx.Assert("no-error", err == nil)
	vx.Assert("root-is-the-html-element", doc.Root != nil && doc.Root.Type == html.ElementNode && doc.Root.Data == "html")
	// and styles can be computed for it
	sf := GetAllComputedStyles(doc, nil, false, nil, nil, nil, nil, false, nil)
	vx.Assert("root-has-a-style", sf.Get(doc.Root, "") != nil)
}
