//go:build verif

package tree

import (
	pr "github.com/benoitkugler/webrender/css/properties"
	"github.com/benoitkugler/webrender/css/selector"
	"github.com/benoitkugler/webrender/css/validation"
	"github.com/benoitkugler/webrender/utils"
	"github.com/benoitkugler/webrender/vx"
	"golang.org/x/net/html"
	"golang.org/x/net/html/atom"
)

// vxSel matches every element and has a symbolic specificity.
type vxSel struct{ spec selector.Specificity }

func (vxSel) Match(n *html.Node) bool             { return n.Type == html.ElementNode }
func (s vxSel) Specificity() selector.Specificity { return s.spec }
func (vxSel) String() string                      { return "*" }
func (vxSel) PseudoElement() string               { return "" }

func vxPrecedence(origin string, important bool) int {
	switch {
	case origin == "user agent":
		return 1
	case origin == "user" && !important:
		return 2
	case origin == "author" && !important:
		return 3
	case origin == "author":
		return 4
	}
	return 5
}

// the origin / importance order of the property text.
func VxH_C03_precedence() {
	origins := []string{"user agent", "user", "author"}
	o1, o2 := origins[vx.Choose("o1", 3)], origins[vx.Choose("o2", 3)]
	i1, i2 := vx.Bool("i1"), vx.Bool("i2")
	if o1 == "user agent" {
		i1 = false // the order of the property text has no entry for user agent !important
	}
	if o2 == "user agent" {
		i2 = false
	}
	p1, p2 := declarationPrecedence(o1, i1), declarationPrecedence(o2, i2)
	w1, w2 := vxPrecedence(o1, i1), vxPrecedence(o2, i2)
	vx.Reach("compared")
	vx.Assert("precedence-order", (p1 < p2) == (w1 < w2) && (p1 == p2) == (w1 == w2))
}

// weights: lexicographic on (precedence, specificity), ties resolved for the later declaration.
func VxH_C03_weight() {
	mk := func(id string) weight {
		return weight{precedence: uint8(vx.Int(id+"p", 1, 5)), specificity: selector.Specificity{vx.Int(id+"a", 0, 3), vx.Int(id+"b", 0, 3), vx.Int(id+"c", 0, 3)}}
	}
	x, y, z := mk("x"), mk("y"), mk("z")
	lexLE := func(a, b weight) bool {
		lt := vx.Or(a.precedence < b.precedence, vx.And(a.precedence == b.precedence,
			vx.Or(a.specificity[0] < b.specificity[0], vx.And(a.specificity[0] == b.specificity[0],
				vx.Or(a.specificity[1] < b.specificity[1], vx.And(a.specificity[1] == b.specificity[1], a.specificity[2] <= b.specificity[2]))))))
		return lt
	}
	vx.Assert("less-is-lexicographic-le", x.Less(y) == lexLE(x, y))
	vx.Assert("total", vx.Or(x.Less(y), y.Less(x)))
	vx.Assert("antisymmetric", vx.Implies(vx.And(x.Less(y), y.Less(x)), x == y))
	vx.Assert("transitive", vx.Implies(vx.And(x.Less(y), y.Less(z)), x.Less(z)))
	vx.Assert("none-is-zero", x.isNone() == (x == weight{}))
	vx.Reach("done")
}

// the declaration that wins the cascade for one property on one element.
func VxH_C03_cascade() {
	root := &utils.HTMLNode{Type: html.ElementNode, Data: "html", DataAtom: atom.Html}
	origins := []string{"user agent", "user", "author"}
	k := 2 + vx.Tier()
	var sheets []sheet
	bestVal, bestPrec, bestInline := 2, 0, false // initial value of orphans is 2
	var bestSpec selector.Specificity
	better := func(prec int, inline bool, spec selector.Specificity) bool {
		if prec != bestPrec {
			return prec > bestPrec
		}
		if inline != bestInline {
			return inline
		}
		for i := 0; i < 3; i++ {
			if spec[i] != bestSpec[i] {
				return spec[i] > bestSpec[i]
			}
		}
		return true // later wins
	}
	for i := 0; i < k; i++ {
		id := string(rune('0' + i))
		origin := origins[vx.Choose("origin"+id, 3)]
		imp := vx.Bool("important" + id)
		if origin == "user agent" && imp {
			vx.Stop()
		}
		spec := selector.Specificity{vx.Choose("a"+id, 3), vx.Choose("b"+id, 2), vx.Choose("c"+id, 2)}
		val := 10 + i
		sheets = append(sheets, sheet{origin: origin, sheet: CSS{matcher: matcher{{
			selector:     selector.SelectorGroup{vxSel{spec}},
			declarations: []validation.Declaration{{Name: pr.PropKey{KnownProp: pr.POrphans}, Value: pr.Int(val), Important: imp}},
		}}}})
		if p := vxPrecedence(origin, imp); better(p, false, spec) {
			bestVal, bestPrec, bestInline, bestSpec = val, p, false, spec
		}
	}
	switch vx.Choose("style-attribute", 3) {
	case 1:
		root.Attr = []html.Attribute{{Key: "style", Val: "orphans: 7"}}
		if better(vxPrecedence("author", false), true, selector.Specificity{}) {
			bestVal, bestPrec, bestInline = 7, 3, true
		}
		vx.Reach("style-attribute")
	case 2:
		root.Attr = []html.Attribute{{Key: "style", Val: "orphans: 7 !important"}}
		if better(vxPrecedence("author", true), true, selector.Specificity{}) {
			bestVal, bestPrec, bestInline = 7, 4, true
		}
		vx.Reach("style-attribute-important")
	}
	sf := newStyleFor(&HTML{Root: root}, sheets, false, nil, nil)
	got := int(sf.Get(root, "").GetOrphans())
	vx.Reach("computed")
	vx.Assert("cascade-winner", got == bestVal)
}

// @page selectors: side / blank / first / name conjunction and :nth(An+B) on the 1-based page number.
func VxH_C03_page() {
	sides := []string{"", "left", "right"}
	names := []string{"", "n", "m"}
	var sel pageSelector
	sel.Side = sides[vx.Choose("sel-side", 3)]
	sel.Name = names[vx.Choose("sel-name", 3)]
	sel.Blank, sel.First = vx.Bool("sel-blank"), vx.Bool("sel-first")
	lim := 1 << 10
	if vx.Tier() > 0 {
		lim = 1 << 20
	}
	a := vx.Choose("a", 13) - 6 // enumerated step keeps the arithmetic linear for the solver
	b := vx.IntM("b", -lim, lim)
	hasNth := vx.Bool("has-nth")
	if hasNth {
		vx.Assume(vx.Or(a != 0, b != 0)) // (0,0) encodes "no :nth()"
		sel.Index = pageIndex{A: a, B: b}
	}
	var page utils.PageElement
	page.Side = sides[1+vx.Choose("page-side", 2)]
	page.Name = names[vx.Choose("page-name", 3)]
	page.Blank, page.First = vx.Bool("page-blank"), vx.Bool("page-first")
	page.Index = vx.IntM("index", 0, lim)
	got := pageTypeMatch(sel, page)
	want := (sel.Side == "" || sel.Side == page.Side) && (!sel.Blank || page.Blank) && (!sel.First || page.First) &&
		(sel.Name == "" || sel.Name == page.Name)
	vx.Reach("matched")
	if !want || !hasNth {
		vx.Assert("page-selector-conjunction", got == want)
		return
	}
	// exists n >= 0 with a*n + b == index+1
	n := vx.IntM("n", 0, 3*lim+8)
	d := page.Index + 1 - b
	if got {
		vx.Reach("nth-match")
		if a == 0 {
			vx.Assert("nth-witness-a0", d == 0)
		} else {
			q := d / a
			vx.Assert("nth-witness", a*q == d && q >= 0)
		}
	} else {
		vx.Reach("nth-no-match")
		vx.Assert("nth-no-witness", a*n+b != page.Index+1)
	}
}

// sheet order and origins as assembled by GetAllComputedStyles: presentational hints rank
// as author rules of zero specificity (any author rule declared later wins), the user
// agent sheet loses to everything, user rules lose to author rules.
func VxH_C03_sheets() {
	root := &utils.HTMLNode{Type: html.ElementNode, Data: "html", DataAtom: atom.Html}
	style := &html.Node{Type: html.ElementNode, Data: "style", DataAtom: atom.Style}
	style.AppendChild(&html.Node{Type: html.TextNode, Data: "p{orphans:5}"})
	p := &html.Node{Type: html.ElementNode, Data: "p", DataAtom: atom.P}
	(*html.Node)(root).AppendChild(style)
	(*html.Node)(root).AppendChild(p)
	mk := func(id string, val int) CSS {
		spec := selector.Specificity{vx.Int(id+"a", 0, 3), vx.Int(id+"b", 0, 3), vx.Int(id+"c", 0, 3)}
		return CSS{matcher: matcher{{
			selector:     selector.SelectorGroup{vxSel{spec}},
			declarations: []validation.Declaration{{Name: pr.PropKey{KnownProp: pr.POrphans}, Value: pr.Int(val)}},
		}}}
	}
	doc := &HTML{Root: root, mediaType: "print"}
	doc.UAStyleSheet = mk("ua", 11)
	doc.PHStyleSheet = mk("ph", 12)
	var user []CSS
	if vx.Bool("user-sheet") {
		user = append(user, mk("user", 13))
	}
	sf := GetAllComputedStyles(doc, user, vx.Bool("presentational-hints"), nil, nil, nil, nil, false, nil)
	got := int(sf.Get((*utils.HTMLNode)(p), "").GetOrphans())
	vx.Reach("computed")
	vx.Assert("author-rule-wins", got == 5)
}

// media types (print rendering): a style sheet applies when its media list names print or all,
// ASCII case-insensitively, whether the list stands in the media attribute of <style> or in an
// @media rule.
func VxH_C03_media() {
	lists := []string{"print", "PRINT", "Print", "screen", "all", "ALL", " print , screen", "screen, PRINT", "", "SCREEN", "tv,handheld"}
	applies := []bool{true, true, true, false, true, true, true, true, true, false, false}
	k := vx.Choose("media", len(lists))
	inAttr := vx.Choose("where", 2) == 0
	var src string
	if inAttr {
		src = "<html><head><style media=\"" + lists[k] + "\">p{orphans:7}</style></head><body><p></p></body></html>"
	} else {
		if lists[k] == "" {
			return // "@media {" without a list is covered by the attribute form
		}
		src = "<html><head><style>@media " + lists[k] + " {p{orphans:7}}</style></head><body><p></p></body></html>"
	}
	doc, err := NewHTML(utils.InputString(src), "", nil, "")
	if err != nil {
		panic(err)
	}
	sf := GetAllComputedStyles(doc, nil, false, nil, nil, nil, nil, false, nil)
	var p *utils.HTMLNode
	it := utils.NewHtmlIterator(doc.Root.AsHtmlNode())
	for it.HasNext() {
		if n := it.Next(); n.Data == "p" {
			p = n
		}
	}
	vx.Reach("computed")
	got := int(sf.Get(p, "").GetOrphans())
	want := 2
	if applies[k] {
		want = 7
	}
	vx.Assert("media-list-decides", got == want)
}
