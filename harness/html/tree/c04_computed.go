//go:build verif

package tree

import (
	pr "github.com/benoitkugler/webrender/css/properties"
	"github.com/benoitkugler/webrender/css/selector"
	"github.com/benoitkugler/webrender/css/validation"
	"github.com/benoitkugler/webrender/utils"
	"github.com/benoitkugler/webrender/vx"
	"golang.org/x/net/html"
	"golang.org/x/net/html/atom"
)

// vxTagSel matches elements by tag name.
type vxTagSel struct{ tag string }

func (s vxTagSel) Match(n *html.Node) bool         { return n.Type == html.ElementNode && n.Data == s.tag }
func (vxTagSel) Specificity() selector.Specificity { return selector.Specificity{0, 0, 1} }
func (s vxTagSel) String() string                  { return s.tag }
func (vxTagSel) PseudoElement() string             { return "" }

func vxRule(tag string, decls ...validation.Declaration) match {
	return match{selector: selector.SelectorGroup{vxTagSel{tag}}, declarations: decls}
}

func vxDecl(p pr.KnownProp, v pr.DeclaredValue) validation.Declaration {
	return validation.Declaration{Name: pr.PropKey{KnownProp: p}, Value: v}
}

func vxDoc() (*utils.HTMLNode, *utils.HTMLNode) {
	root := &utils.HTMLNode{Type: html.ElementNode, Data: "html", DataAtom: atom.Html}
	body := &html.Node{Type: html.ElementNode, Data: "body", DataAtom: atom.Body}
	(*html.Node)(root).AppendChild(body)
	return root, (*utils.HTMLNode)(body)
}

func vxLen(v pr.Float, u pr.Unit) pr.DimOrS { return pr.Dimension{Value: v, Unit: u}.ToValue() }

// absolute units by their fixed ratios; em / % of font-size against the parent's
// computed font size, other em against the element's own, rem against the root's.
func VxH_C04_length() {
	root, body := vxDoc()
	rootFS := pr.Float(vx.F32("root-font-size"))
	vx.Assume(vx.And(rootFS > 0, rootFS <= 1000))
	units := []pr.Unit{pr.Px, pr.Pt, pr.Pc, pr.In, pr.Cm, pr.Mm, pr.Q, pr.Em, pr.Rem, pr.Perc}
	fsUnit := units[vx.Choose("font-size-unit", len(units))]
	wUnit := units[vx.Choose("width-unit", len(units))]
	fs := pr.Float(vx.F32("font-size"))
	w := pr.Float(vx.F32("width"))
	vx.Assume(vx.And(vx.And(fs > 0, fs <= 1000), vx.And(w > 0, w <= 1000)))
	sheets := []sheet{{origin: "author", sheet: CSS{matcher: matcher{
		vxRule("html", vxDecl(pr.PFontSize, vxLen(rootFS, pr.Px))),
		vxRule("body", vxDecl(pr.PFontSize, vxLen(fs, fsUnit)), vxDecl(pr.PWidth, vxLen(w, wUnit))),
	}}}}
	sf := newStyleFor(&HTML{Root: root}, sheets, false, nil, nil)
	st := sf.Get(body, "")
	gotFS := st.GetFontSize()
	gotW := st.GetWidth()
	vx.Reach("computed")
	ratio := map[pr.Unit]float64{pr.Px: 1, pr.Pt: 96. / 72, pr.Pc: 16, pr.In: 96, pr.Cm: 96 / 2.54, pr.Mm: 9.6 / 2.54, pr.Q: 96 / 101.6}
	var wantFS float64
	switch fsUnit {
	case pr.Em:
		wantFS = float64(fs) * float64(rootFS) // the parent (root) computed font size
	case pr.Perc:
		wantFS = float64(fs) * float64(rootFS) / 100
	case pr.Rem:
		wantFS = float64(fs) * float64(rootFS)
	default:
		wantFS = float64(fs) * ratio[fsUnit]
	}
	vx.Assert("font-size-px", vx.ApproxEq(float64(gotFS.Value), wantFS))
	switch wUnit {
	case pr.Perc:
		vx.Assert("width-percentage-kept", gotW.Unit == pr.Perc && vx.ApproxEq(float64(gotW.Value), float64(w)))
	case pr.Em:
		vx.Assert("width-em-own-font-size", vx.ApproxEq(float64(gotW.Value), float64(w)*wantFS))
	case pr.Rem:
		vx.Assert("width-rem-root-font-size", vx.ApproxEq(float64(gotW.Value), float64(w)*float64(rootFS)))
	default:
		vx.Assert("width-absolute-unit", vx.ApproxEq(float64(gotW.Value), float64(w)*ratio[wUnit]))
	}
}

// every property has a computed value; with no declaration (or inherit / initial) it is
// the parent's computed value or the computed initial value.
func VxH_C04_defaulting() {
	root, body := vxDoc()
	fs := pr.Float(vx.F32("parent-font-size"))
	vx.Assume(vx.And(fs > 0, fs <= 1000))
	p := pr.KnownProp(vx.Choose("property", int(pr.NbProperties)-1) + 1)
	mode := vx.Choose("mode", 3) // 0: nothing declared, 1: inherit, 2: initial
	rootRule := vxRule("html", vxDecl(pr.PFontSize, vxLen(fs, pr.Px)), vxDecl(pr.POrphans, pr.Int(7)), vxDecl(pr.PZIndex, pr.IntString{Int: 3}))
	var bodyDecls []validation.Declaration
	switch mode {
	case 1:
		bodyDecls = append(bodyDecls, vxDecl(p, pr.Inherit))
	case 2:
		bodyDecls = append(bodyDecls, vxDecl(p, pr.Initial))
	}
	sheets := []sheet{{origin: "author", sheet: CSS{matcher: matcher{rootRule, vxRule("body", bodyDecls...)}}}}
	sf := newStyleFor(&HTML{Root: root}, sheets, false, nil, nil)
	child, parent := sf.Get(body, ""), sf.Get(root, "")
	// reference: computed initial values are those of the same element in a document without any declaration
	root2, body2 := vxDoc()
	sf2 := newStyleFor(&HTML{Root: root2}, nil, false, nil, nil)
	initial := sf2.Get(body2, "")
	got := child.Get(p.Key())
	vx.Reach("computed")
	vx.Assert("has-a-value", got != nil)
	inherits := mode == 1 || (mode == 0 && pr.Inherited.Has(p))
	if inherits {
		vx.Assert("inherited-from-parent", vx.DeepEqual(got, parent.Get(p.Key())))
	} else {
		vx.Assert("initial-value", vx.DeepEqual(got, initial.Get(p.Key())))
	}
}

// the root element inherits the initial values: undeclared, initial and inherit coincide.
func VxH_C04_root() {
	root, _ := vxDoc()
	p := pr.KnownProp(vx.Choose("property", int(pr.NbProperties)-1) + 1)
	var decls []validation.Declaration
	switch vx.Choose("mode", 2) {
	case 0:
		decls = append(decls, vxDecl(p, pr.Inherit))
	case 1:
		decls = append(decls, vxDecl(p, pr.Initial))
	}
	sf := newStyleFor(&HTML{Root: root}, []sheet{{origin: "author", sheet: CSS{matcher: matcher{vxRule("html", decls...)}}}}, false, nil, nil)
	root2, _ := vxDoc()
	sf2 := newStyleFor(&HTML{Root: root2}, nil, false, nil, nil)
	got, want := sf.Get(root, "").Get(p.Key()), sf2.Get(root2, "").Get(p.Key())
	vx.Reach("computed")
	vx.Assert("root-inherit-is-initial", vx.DeepEqual(got, want))
}

// one rule shared by two elements with different font sizes: relative lengths are
// made absolute against each element's own font size.
func VxH_C04_shared_rule() {
	root := &utils.HTMLNode{Type: html.ElementNode, Data: "html", DataAtom: atom.Html}
	a := &html.Node{Type: html.ElementNode, Data: "p", DataAtom: atom.P}
	b := &html.Node{Type: html.ElementNode, Data: "q", DataAtom: atom.Q}
	(*html.Node)(root).AppendChild(a)
	(*html.Node)(root).AppendChild(b)
	fa, fb := pr.Float(vx.F32("fs-a")), pr.Float(vx.F32("fs-b"))
	vx.Assume(vx.And(vx.And(fa > 0, fa <= 1000), vx.And(fb > 0, fb <= 1000)))
	x, y := pr.Float(vx.F32("x")), pr.Float(vx.F32("y"))
	vx.Assume(vx.And(vx.And(x > 0, x <= 100), vx.And(y > 0, y <= 100)))
	tr := pr.Transforms{{String: "translate", Dimensions: []pr.Dimension{{Value: x, Unit: pr.Em}, {Value: y, Unit: pr.Em}}}}
	grad := pr.Images{pr.LinearGradient{ColorStops: pr.ColorsStops{{Position: pr.Dimension{Value: x, Unit: pr.Em}}, {Position: pr.Dimension{Value: y, Unit: pr.Em}}}}}
	gauto := pr.GridAuto{pr.NewGridDimsValue(vxLen(x, pr.Em))}
	shared := []validation.Declaration{vxDecl(pr.PTransform, tr), vxDecl(pr.PWidth, vxLen(x, pr.Em)), vxDecl(pr.PMarginLeft, vxLen(y, pr.Em)),
		vxDecl(pr.PBackgroundImage, grad), vxDecl(pr.PGridAutoColumns, gauto), vxDecl(pr.PBorderImageOutset, pr.Values{vxLen(x, pr.Em)})}
	m := matcher{
		vxRule("p", vxDecl(pr.PFontSize, vxLen(fa, pr.Px))),
		vxRule("q", vxDecl(pr.PFontSize, vxLen(fb, pr.Px))),
		match{selector: selector.SelectorGroup{vxTagSel{"p"}, vxTagSel{"q"}}, declarations: shared},
	}
	sf := newStyleFor(&HTML{Root: root}, []sheet{{origin: "author", sheet: CSS{matcher: m}}}, false, nil, nil)
	sa, sb := sf.Get((*utils.HTMLNode)(a), ""), sf.Get((*utils.HTMLNode)(b), "")
	ta, tb := sa.GetTransform(), sb.GetTransform()
	vx.Reach("computed")
	vx.Assert("first-element-translate", vx.And(vx.ApproxEq(float64(ta[0].Dimensions[0].Value), float64(x*fa)), vx.ApproxEq(float64(ta[0].Dimensions[1].Value), float64(y*fa))))
	vx.Assert("second-element-translate", vx.And(vx.ApproxEq(float64(tb[0].Dimensions[0].Value), float64(x*fb)), vx.ApproxEq(float64(tb[0].Dimensions[1].Value), float64(y*fb))))
	vx.Assert("second-element-width", vx.ApproxEq(float64(sb.GetWidth().Value), float64(x*fb)))
	vx.Assert("second-element-margin", vx.ApproxEq(float64(sb.GetMarginLeft().Value), float64(y*fb)))
	ga, gb := sa.GetBackgroundImage()[0].(pr.LinearGradient), sb.GetBackgroundImage()[0].(pr.LinearGradient)
	vx.Assert("first-element-gradient-stop", vx.ApproxEq(float64(ga.ColorStops[0].Position.Value), float64(x*fa)))
	vx.Assert("second-element-gradient-stop", vx.And(vx.ApproxEq(float64(gb.ColorStops[0].Position.Value), float64(x*fb)), vx.ApproxEq(float64(gb.ColorStops[1].Position.Value), float64(y*fb))))
	vx.Assert("first-element-grid-auto", vx.ApproxEq(float64(sa.GetGridAutoColumns()[0].V.Value), float64(x*fa)))
	vx.Assert("second-element-grid-auto", vx.ApproxEq(float64(sb.GetGridAutoColumns()[0].V.Value), float64(x*fb)))
	vx.Assert("first-element-border-image-outset", vx.ApproxEq(float64(sa.GetBorderImageOutset()[0].Value), float64(x*fa)))
	vx.Assert("second-element-border-image-outset", vx.ApproxEq(float64(sb.GetBorderImageOutset()[0].Value), float64(x*fb)))
}

// relative keywords on the root element are resolved against the initial values.
func VxH_C04_relative_on_root() {
	root, _ := vxDoc()
	var d validation.Declaration
	want := 0
	switch vx.Choose("decl", 4) {
	case 0:
		d, want = vxDecl(pr.PFontWeight, pr.IntString{String: "bolder"}), 700
	case 1:
		d, want = vxDecl(pr.PFontWeight, pr.IntString{String: "lighter"}), 100
	case 2:
		d, want = vxDecl(pr.PFontSize, pr.DimOrS{S: "larger"}), 0
	default:
		d, want = vxDecl(pr.PFontSize, pr.DimOrS{S: "smaller"}), 0
	}
	sf := newStyleFor(&HTML{Root: root}, []sheet{{origin: "author", sheet: CSS{matcher: matcher{vxRule("html", d)}}}}, false, nil, nil)
	st := sf.Get(root, "")
	w := st.GetFontWeight()
	fs := st.GetFontSize()
	vx.Reach("computed")
	if want != 0 {
		vx.Assert("font-weight-relative-to-initial", w.Int == want)
	} else {
		vx.Assert("font-size-finite", fs.Value > 0)
	}
}

// properties whose initial value is not a computed value (a keyword or a width that depends on
// another property: CSS Backgrounds 3, Multi-column 1, Paged Media 3, UI 3, Display 3)
var vxInitialNeedsComputing = []pr.KnownProp{
	pr.PDisplay, pr.PColumnGap, pr.PBleedTop, pr.PBleedLeft, pr.PBleedBottom, pr.PBleedRight,
	pr.POutlineWidth, pr.POutlineColor, pr.PColumnRuleWidth, pr.PColumnRuleColor,
	pr.PBorderTopWidth, pr.PBorderLeftWidth, pr.PBorderBottomWidth, pr.PBorderRightWidth,
	pr.PBorderTopColor, pr.PBorderLeftColor, pr.PBorderBottomColor, pr.PBorderRightColor,
}

// "with no winning declaration a property takes its initial value": for the properties whose
// initial value still needs computing, leaving the property undeclared and declaring its
// initial value explicitly give the same computed value, on the root and on a child.
func VxH_C04_initial_computed() {
	root, body := vxDoc()
	p := vxInitialNeedsComputing[vx.Choose("property", len(vxInitialNeedsComputing))]
	onRoot := vx.Choose("on-root", 2) == 1
	// a non-default context, so that "depends on another property" matters
	ctx := []validation.Declaration{vxDecl(pr.PBorderTopStyle, pr.String("solid")), vxDecl(pr.PBorderLeftStyle, pr.String("solid")),
		vxDecl(pr.POutlineStyle, pr.String("solid")), vxDecl(pr.PColumnRuleStyle, pr.String("solid")), vxDecl(pr.PFloat, pr.String("left"))}
	el, tag := body, "body"
	if onRoot {
		el, tag = root, "html"
	}
	sf := newStyleFor(&HTML{Root: root}, []sheet{{origin: "author", sheet: CSS{matcher: matcher{vxRule(tag, ctx...)}}}}, false, nil, nil)
	v1 := sf.Get(el, "").Get(p.Key())
	vx.Reach("computed")
	root2, body2 := vxDoc()
	decls := append(append([]validation.Declaration{}, ctx...), vxDecl(p, pr.InitialValues[p].(pr.DeclaredValue)))
	sf2 := newStyleFor(&HTML{Root: root2}, []sheet{{origin: "author", sheet: CSS{matcher: matcher{vxRule(tag, decls...)}}}}, false, nil, nil)
	el2 := body2
	if onRoot {
		el2 = root2
	}
	v2 := sf2.Get(el2, "").Get(p.Key())
	vx.Reach("recomputed")
	vx.Assert("undeclared-equals-declared-initial-value", vx.DeepEqual(v1, v2))
}

// font-size: smaller / larger step to the adjacent entry of the keyword table (xx-small ..
// xx-large = 3/5, 3/4, 8/9, 1, 6/5, 3/2, 2 of 16px) when the parent's size lies within the
// table, and always change the size in the direction they name.
func VxH_C04_font_size_steps() {
	root, body := vxDoc()
	P := pr.Float(vx.F32("parent-font-size"))
	vx.Assume(vx.And(P >= 1, P <= 100))
	kw := []string{"smaller", "larger"}[vx.Choose("keyword", 2)]
	m := matcher{
		vxRule("html", vxDecl(pr.PFontSize, vxLen(P, pr.Px))),
		vxRule("body", vxDecl(pr.PFontSize, pr.DimOrS{S: kw})),
	}
	sf := newStyleFor(&HTML{Root: root}, []sheet{{origin: "author", sheet: CSS{matcher: m}}}, false, nil, nil)
	got := sf.Get(body, "").GetFontSize().Value
	vx.Reach("computed")
	table := []pr.Float{16 * 3 / 5., 16 * 3 / 4., 16 * 8 / 9., 16, 16 * 6 / 5., 16 * 3 / 2., 32}
	if kw == "smaller" {
		vx.Assert("smaller-is-smaller", got < P)
		// the largest table entry below the parent's size
		for i := len(table) - 1; i >= 0; i-- {
			if table[i] < P {
				if i+1 < len(table) && P <= table[i+1] {
					vx.Reach("within-table")
					vx.Assert("smaller-steps-to-the-entry-below", vx.ApproxEq(float64(got), float64(table[i])))
				}
				break
			}
		}
	} else {
		vx.Assert("larger-is-larger", got > P)
		for i := 0; i < len(table); i++ {
			if table[i] > P {
				if i > 0 && P >= table[i-1] {
					vx.Reach("within-table")
					vx.Assert("larger-steps-to-the-entry-above", vx.ApproxEq(float64(got), float64(table[i])))
				}
				break
			}
		}
	}
}

// image-orientation angles compute to a quarter turn in [0, 360): -90deg is 270deg.
func VxH_C04_image_orientation() {
	root, body := vxDoc()
	k := vx.Choose("quarter-turns", 13) - 6
	angle := pr.Fl(float64(k) * 3.141592653589793 / 2)
	m := matcher{vxRule("body", vxDecl(pr.PImageOrientation, pr.SBoolFloat{Float: angle}))}
	sf := newStyleFor(&HTML{Root: root}, []sheet{{origin: "author", sheet: CSS{matcher: m}}}, false, nil, nil)
	got := sf.Get(body, "").GetImageOrientation().Float
	vx.Reach("computed")
	want := pr.Fl(((k%4 + 4) % 4) * 90)
	vx.Assert("quarter-turn-in-0-360", got == want)
}
