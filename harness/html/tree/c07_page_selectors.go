//go:build verif

package tree

import (
	pa "github.com/benoitkugler/webrender/css/parser"
	"github.com/benoitkugler/webrender/vx"
)

// the prelude of an @page rule is untrusted input: parsePageSelectors returns (possibly
// nothing) for every token list, and what it accepts is what the tokens say.
func VxH_C07_page_selectors() {
	n := vx.Choose("n", 4+vx.Tier())
	ws := pa.NewWhitespace(" ", pa.Pos{})
	ident := func(s string) pa.Token { return pa.NewIdent(s, pa.Pos{}) }
	num := func(v float32) pa.Token { return pa.NewNumber(v, pa.Pos{}) }
	nthArgs := [][]pa.Token{
		nil,
		{num(2)},
		{ident("of")},
		{ident("of"), ws, ident("x")},
		{num(2), ws, ident("of"), ws, ident("x")},
		{num(2), ident("of")},
		{ws, ident("of"), ws},
		{ident("n"), ws, ident("of"), ws, ident("x"), ws, ident("of")},
		{ident("even")},
		{pa.String{}},
	}
	var prelude []pa.Token
	for i := 0; i < n; i++ {
		id := "t" + string(rune('0'+i))
		var t pa.Token
		switch vx.Choose(id, 8) {
		case 0:
			t = ident([]string{"x", "left", "right", "first", "blank", "LEFT"}[vx.Choose(id+".ident", 6)])
		case 1:
			t = pa.NewLiteral(":", pa.Pos{})
		case 2:
			t = pa.NewLiteral(",", pa.Pos{})
		case 3:
			t = ws
		case 4:
			t = pa.NewFunctionBlock(pa.Pos{}, "nth", nthArgs[vx.Choose(id+".nth", len(nthArgs))])
		case 5:
			t = pa.NewFunctionBlock(pa.Pos{}, "zz", nil)
		case 6:
			t = num(1)
		default:
			t = pa.Hash{}
		}
		prelude = append(prelude, t)
	}
	out := parsePageSelectors(pa.QualifiedRule{Prelude: prelude})
	vx.Reach("parsed")
	if n == 0 {
		vx.Assert("empty-prelude-matches-every-page", len(out) == 1 && out[0].Side == "" && out[0].Name == "" && out[0].Index.IsNone() && !out[0].Blank && !out[0].First)
	}
	if len(out) > 0 {
		vx.Reach("accepted")
		// an accepted selector list never comes from a prelude holding a token that no page
		// selector contains
		for _, t := range prelude {
			switch t.(type) {
			case pa.Hash, pa.Number:
				vx.Assert("garbage-token-rejected", false)
			}
		}
	}
}
