//go:build verif

package tree

import (
	pr "github.com/benoitkugler/webrender/css/properties"
	"github.com/benoitkugler/webrender/utils"
	"github.com/benoitkugler/webrender/vx"
	"golang.org/x/net/html"
	"golang.org/x/net/html/atom"
)

// vxVarDefs are the possible definitions of a custom property.
var vxVarDefs = []string{"", "5", "x", "var(--a)", "var(--b)", "var(--c)", "var(--b, 7)", "var(--c, 7)", "var(--c, var(--a))"}

// vxSubst is the substitution semantics of var(): it returns the resolved text of
// a custom property, or ok=false when the reference is undefined without fallback or cyclic.
func vxSubst(defs map[string]string, name string, visiting map[string]bool) (string, bool) {
	if visiting[name] {
		return "", false
	}
	def, ok := defs[name]
	if !ok || def == "" {
		return "", false
	}
	visiting[name] = true
	defer delete(visiting, name)
	return vxSubstText(defs, def, visiting)
}

func vxSubstText(defs map[string]string, text string, visiting map[string]bool) (string, bool) {
	switch text {
	case "var(--a)":
		return vxSubst(defs, "--a", visiting)
	case "var(--b)":
		return vxSubst(defs, "--b", visiting)
	case "var(--c)":
		return vxSubst(defs, "--c", visiting)
	case "var(--b, 7)":
		if v, ok := vxSubst(defs, "--b", visiting); ok {
			return v, true
		}
		if _, has := defs["--b"]; has && defs["--b"] != "" {
			return "", false // defined but cyclic / invalid: no fallback
		}
		return "7", true
	case "var(--c, 7)":
		if v, ok := vxSubst(defs, "--c", visiting); ok {
			return v, true
		}
		if _, has := defs["--c"]; has && defs["--c"] != "" {
			return "", false
		}
		return "7", true
	case "var(--c, var(--a))":
		if v, ok := vxSubst(defs, "--c", visiting); ok {
			return v, true
		}
		if _, has := defs["--c"]; has && defs["--c"] != "" {
			return "", false
		}
		return vxSubst(defs, "--a", visiting)
	}
	return text, true
}

// var() behaves as substitution; an undefined, ill-typed or cyclic reference makes the
// declaration invalid at computed-value time (initial value for a non-inherited
// property) and never hangs or crashes.
func VxH_C08_var() {
	defs := map[string]string{}
	style := ""
	for _, n := range []string{"--a", "--b", "--c"} {
		d := vxVarDefs[vx.Choose("def"+n, len(vxVarDefs))]
		if n == "--c" && vx.Tier() == 0 {
			d = ""
		}
		if d != "" {
			defs[n] = d
			style += n + ":" + d + ";"
		}
	}
	use := []string{"var(--a)", "var(--b, 7)", "var(--c, var(--a))"}[vx.Choose("use", 3)]
	style += "orphans:" + use
	root := &utils.HTMLNode{Type: html.ElementNode, Data: "html", DataAtom: atom.Html, Attr: []html.Attribute{{Key: "style", Val: style}}}
	sf := newStyleFor(&HTML{Root: root}, nil, false, nil, nil)
	got := int(sf.Get(root, "").GetOrphans())
	vx.Reach("computed")
	want := 2 // initial value of orphans
	if v, ok := vxSubstText(defs, use, map[string]bool{}); ok {
		switch v {
		case "5":
			want = 5
		case "7":
			want = 7
		}
	}
	vx.Assert("var-substitution", got == want)
	_ = pr.POrphans
}

// a shorthand holding var() expands after substitution, wherever it is declared
// (style attribute or style sheet).
func VxH_C08_var_shorthand() {
	// --p uses --m twice (an acyclic "diamond"); --q reaches --m through --p
	decl := []string{"margin: 1px 2px 3px var(--m)", "margin: var(--m)", "padding: 1px var(--m)", "border-width: var(--m) 2px",
		"padding: var(--p)", "margin: var(--q) var(--m)", "padding-left: calc(var(--m) + var(--m))",
		"padding-left: foo(bar(var(--m)))", "margin: 1px foo(bar(baz(var(--p))))"}[vx.Choose("decl", 9)]
	mdef := []string{"4px", "0", "auto", "red"}[vx.Choose("m", 4)]
	root := &utils.HTMLNode{Type: html.ElementNode, Data: "html", DataAtom: atom.Html}
	body := &html.Node{Type: html.ElementNode, Data: "body", DataAtom: atom.Body}
	(*html.Node)(root).AppendChild(body)
	text := "--m: " + mdef + "; --p: var(--m) var(--m); --q: var(--p); border-style: solid; " + decl
	if vx.Bool("in-style-attribute") {
		body.Attr = []html.Attribute{{Key: "style", Val: text}}
	} else {
		style := &html.Node{Type: html.ElementNode, Data: "style", DataAtom: atom.Style}
		style.AppendChild(&html.Node{Type: html.TextNode, Data: "body{" + text + "}"})
		(*html.Node)(root).AppendChild(style)
	}
	doc := &HTML{Root: root, mediaType: "print"}
	sf := GetAllComputedStyles(doc, nil, false, nil, nil, nil, nil, false, nil)
	st := sf.Get((*utils.HTMLNode)(body), "")
	vx.Reach("computed")
	// reference: the same declaration with the value spliced in by hand
	root2 := &utils.HTMLNode{Type: html.ElementNode, Data: "html", DataAtom: atom.Html}
	body2 := &html.Node{Type: html.ElementNode, Data: "body", DataAtom: atom.Body}
	(*html.Node)(root2).AppendChild(body2)
	spliced := ""
	subst := func(in, name, by string) string {
		out := ""
		for i := 0; i < len(in); i++ {
			if i+len(name) <= len(in) && in[i:i+len(name)] == name {
				out += by
				i += len(name) - 1
			} else {
				out += string(in[i])
			}
		}
		return out
	}
	decl = subst(decl, "var(--q)", "var(--p)")
	decl = subst(decl, "var(--p)", "var(--m) var(--m)")
	for i := 0; i < len(decl); i++ {
		if i+8 <= len(decl) && decl[i:i+8] == "var(--m)" {
			spliced += mdef
			i += 7
		} else {
			spliced += string(decl[i])
		}
	}
	body2.Attr = []html.Attribute{{Key: "style", Val: "border-style: solid; " + spliced}}
	sf2 := GetAllComputedStyles(&HTML{Root: root2, mediaType: "print"}, nil, false, nil, nil, nil, nil, false, nil)
	ref := sf2.Get((*utils.HTMLNode)(body2), "")
	vx.Assert("margin-left", st.GetMarginLeft() == ref.GetMarginLeft())
	vx.Assert("margin-top", st.GetMarginTop() == ref.GetMarginTop())
	vx.Assert("padding-left", st.GetPaddingLeft() == ref.GetPaddingLeft())
	vx.Assert("padding-top", st.GetPaddingTop() == ref.GetPaddingTop())
	vx.Assert("border-top-width", st.GetBorderTopWidth() == ref.GetBorderTopWidth())
	vx.Assert("border-left-width", st.GetBorderLeftWidth() == ref.GetBorderLeftWidth())
}
