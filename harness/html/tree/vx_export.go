//go:build verif

package tree

import (
	pr "github.com/benoitkugler/webrender/css/properties"
	"github.com/benoitkugler/webrender/css/selector"
	"github.com/benoitkugler/webrender/css/validation"
)

// VxDecl and VxSheet let harnesses of other packages build a style sheet whose rules
// select elements by tag name and carry already validated (possibly symbolic) values.
type VxDecl struct {
	Prop  pr.KnownProp
	Value pr.DeclaredValue
}

type VxRule struct {
	Tag   string
	Decls []VxDecl
}

func VxSheet(rules ...VxRule) CSS {
	var m matcher
	for _, r := range rules {
		var ds []validation.Declaration
		for _, d := range r.Decls {
			ds = append(ds, validation.Declaration{Name: pr.PropKey{KnownProp: d.Prop}, Value: d.Value})
		}
		m = append(m, match{selector: selector.SelectorGroup{vxTagSel{r.Tag}}, declarations: ds})
	}
	return CSS{matcher: m}
}

// VxPageSheet is a style sheet with one @page rule matching every page.
func VxPageSheet(decls ...VxDecl) CSS {
	var ds []validation.Declaration
	for _, d := range decls {
		ds = append(ds, validation.Declaration{Name: pr.PropKey{KnownProp: d.Prop}, Value: d.Value})
	}
	return CSS{pageRules: []PageRule{{selectors: []selectorPageRule{{}}, declarations: ds}}}
}
