//go:build verif

package matrix

import (
	"github.com/benoitkugler/webrender/vx"
)

func vxT(p string) Transform {
	return New(vx.F32(p+"a"), vx.F32(p+"b"), vx.F32(p+"c"), vx.F32(p+"d"), vx.F32(p+"e"), vx.F32(p+"f"))
}

func vxEq(a, b fl) bool { return vx.RealEq(float64(a), float64(b)) }

func vxSame(label string, x, y Transform) {
	vx.Assert(label+".A", vxEq(x.A, y.A))
	vx.Assert(label+".B", vxEq(x.B, y.B))
	vx.Assert(label+".C", vxEq(x.C, y.C))
	vx.Assert(label+".D", vxEq(x.D, y.D))
	vx.Assert(label+".E", vxEq(x.E, y.E))
	vx.Assert(label+".F", vxEq(x.F, y.F))
}

// group laws: associativity, identity, Apply is a homomorphism, Mul3, Left/RightMultBy.
func VxH_C17_group() {
	T, U, V := vxT("t"), vxT("u"), vxT("v")
	vxSame("assoc", Mul(Mul(T, U), V), Mul(T, Mul(U, V)))
	vxSame("identity-left", Mul(Identity(), T), T)
	vxSame("identity-right", Mul(T, Identity()), T)
	vxSame("mul3", Mul3(T, U, V), Mul(T, Mul(U, V)))
	x, y := vx.F32("x"), vx.F32("y")
	ux, uy := U.Apply(x, y)
	ax, ay := T.Apply(ux, uy)
	bx, by := Mul(T, U).Apply(x, y)
	vx.Assert("apply-homomorphism.x", vxEq(ax, bx))
	vx.Assert("apply-homomorphism.y", vxEq(ay, by))
	L := T
	L.LeftMultBy(U)
	vxSame("leftmultby", L, Mul(U, T))
	R := T
	R.RightMultBy(U)
	vxSame("rightmultby", R, Mul(T, U))
	vx.Reach("done")
}

// Invert: error iff determinant is zero, two-sided inverse otherwise.
func VxH_C17_invert() {
	T := vxT("t")
	I := T
	err := I.Invert()
	if T.Determinant() == 0 {
		vx.Reach("singular")
		vx.Assert("singular-error", err != nil)
		return
	}
	vx.Reach("regular")
	vx.Assert("regular-no-error", err == nil)
	vxSame("right-inverse", Mul(T, I), Identity())
	vxSame("left-inverse", Mul(I, T), Identity())
}

// in-place Translate / Scale / Rotate / Skew equal right-multiplication by the constructor.
func VxH_C17_inplace() {
	T := vxT("t")
	a, b := vx.F32("p"), vx.F32("q")
	X := T
	X.Translate(a, b)
	vxSame("translate", X, Mul(T, Translation(a, b)))
	X = T
	X.Scale(a, b)
	vxSame("scale", X, Mul(T, Scaling(a, b)))
	X = T
	X.Rotate(a)
	vxSame("rotate", X, Mul(T, Rotation(a)))
	X = T
	X.Skew(a, b)
	vxSame("skew", X, Mul(T, Skew(a, b)))
	vx.Reach("done")
}

// constructors against the matrices of CSS Transforms / SVG (uninterpreted sin, cos, tan).
func VxH_C17_ctor() {
	a, b := vx.F32("p"), vx.F32("q")
	vxSame("translation", Translation(a, b), New(1, 0, 0, 1, a, b))
	vxSame("scaling", Scaling(a, b), New(a, 0, 0, b, 0, 0))
	c, s := fl(vx.Cos(float64(a))), fl(vx.Sin(float64(a)))
	vxSame("rotation", Rotation(a), New(c, s, -s, c, 0, 0))
	// skew(ax, ay): x' = x + tan(ax) y ; y' = tan(ay) x + y
	tx, ty := fl(vx.Tan(float64(a))), fl(vx.Tan(float64(b)))
	vxSame("skew", Skew(a, b), New(1, ty, tx, 1, 0, 0))
	// and as a point map
	x, y := vx.F32("x"), vx.F32("y")
	ox, oy := Skew(a, b).Apply(x, y)
	vx.Assert("skew-apply.x", vxEq(ox, x+tx*y))
	vx.Assert("skew-apply.y", vxEq(oy, ty*x+y))
	vx.Reach("done")
}
