//go:build verif

package svg

import (
	"github.com/benoitkugler/webrender/vx"
)

// every SVG attribute parser returns (possibly with an error) on arbitrary bytes.
func VxH_C07_svg_attrs() {
	n := vx.Choose("n", 4+vx.Tier())
	s := vx.String("s", n)
	switch vx.Choose("parser", 9) {
	case 0:
		parseValue(s)
		vx.Reach("parseValue")
	case 1:
		parseValues(s)
		vx.Reach("parseValues")
	case 2:
		parseOpacity(s)
		vx.Reach("parseOpacity")
	case 3:
		parseViewbox(s)
		vx.Reach("parseViewbox")
	case 4:
		parsePreserveAspectRatio(s)
		vx.Reach("parsePreserveAspectRatio")
	case 5:
		parseOrientation(s)
		vx.Reach("parseOrientation")
	case 6:
		parseFontWeight(s)
		parseAnchor(s)
		parseBaseline(s)
		vx.Reach("keywords")
	case 7:
		parsePoints(s, nil, vx.Bool("arc"))
		vx.Reach("parsePoints")
	default:
		parseURLFragment("url(" + s + ")")
		vx.Reach("parseURLFragment")
	}
}

func VxH_C07_svg_transform() {
	n := vx.Choose("n", 4+vx.Tier())
	s := vx.String("s", n)
	parseTransform(s)
	vx.Reach("parsed")
	// and with a well-formed function name in front of arbitrary argument bytes
	name := []string{"rotate(", "translate(", "matrix(", "skewX(", "scale("}[vx.Choose("fn", 5)]
	parseTransform(name + s)
	parseTransform(name + s + ")")
	vx.Reach("parsed-with-name")
}

func VxH_C07_svg_path() {
	n := vx.Choose("n", 4+vx.Tier())
	s := vx.String("s", n)
	var p pathParser
	p.parsePath(s)
	vx.Reach("parsed")
	cmd := []string{"M1 2", "M1 2A", "M0 0a1 1 0 ", "M1 1C", "M1 1S", "M1 1q", "M0 0T"}[vx.Choose("cmd", 7)]
	var q pathParser
	q.parsePath(cmd + s)
	vx.Reach("parsed-after-command")
}
