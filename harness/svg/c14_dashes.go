//go:build verif

package svg

import (
	"github.com/benoitkugler/webrender/vx"
)

// stroke-dasharray / stroke-dashoffset as handed to SetDash: every number is finite, no dash
// is negative, a non-empty pattern has a positive total, and a negative offset is brought
// into [0, total].
func VxH_C14_svg_dashes() {
	n := vx.Choose("n", 2+vx.Tier()) + 1
	dims := drawingDims{fontSize: 16, innerWidth: 100, innerHeight: 100, concreteWidth: 100, concreteHeight: 100}
	dims.setupDiagonal()
	arr := make([]Value, n)
	for i := range arr {
		arr[i] = Value{V: Fl(vx.F32("dash" + string(rune('0'+i)))), U: Px}
	}
	orig := Fl(vx.F32("offset"))
	dashes, offset := dims.resolveDashes(arr, Value{V: orig, U: Px})
	vx.Reach("resolved")
	var total Fl
	for i, d := range dashes {
		vx.Assert("dash-finite:"+string(rune('0'+i)), vx.Finite(float64(d)))
		vx.Assert("dash-not-negative:"+string(rune('0'+i)), d >= 0)
		total += d
	}
	vx.Assert("offset-finite", vx.Finite(float64(offset)))
	if dashes != nil {
		vx.Reach("pattern")
		vx.Assert("pattern-total-positive", total > 0)
		vx.Assert("offset-not-negative", offset >= 0)
		if orig < 0 {
			vx.Assert("negative-offset-wrapped", offset <= total)
		}
	}
}
