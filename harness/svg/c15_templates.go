//go:build verif

package svg

import (
	"sort"
	"strings"

	"github.com/benoitkugler/webrender/vx"
)

func vxAttrsOf(ctx *svgContext, id string) string {
	n := ctx.defs[id]
	if n == nil {
		return "<missing>"
	}
	var keys []string
	for k := range n.attrs {
		keys = append(keys, k)
	}
	sort.Strings(keys)
	s := ""
	for _, k := range keys {
		s += k + "=" + n.attrs[k] + ";"
	}
	return s
}

// gradient / pattern templates (href): every chain of references — cyclic ones included —
// is resolved without crashing, the result does not depend on the order in which the map of
// definitions is visited, and on an acyclic chain an element ends up with its own attributes
// plus, for those it lacks, the ones of the nearest template that has them.
func VxH_C15_svg_templates() {
	ids := []string{"g0", "g1", "g2"}
	own := []map[string]string{
		{"x1": "10", "y2": "5"},
		{"x1": "20", "x2": "7"},
		{"x1": "30", "x2": "8", "y1": "9"},
	}
	tags := []string{"linearGradient", "linearGradient", "radialGradient"}
	href := make([]int, 3) // 0: none, k: #g(k-1)
	src := "<svg><defs>"
	for i, id := range ids {
		href[i] = vx.Choose("href-"+id, 4)
		src += "<" + tags[i] + " id=\"" + id + "\""
		if href[i] != 0 {
			src += " href=\"#" + ids[href[i]-1] + "\""
		}
		keys := []string{"x1", "x2", "y1", "y2"}
		for _, k := range keys {
			if v, ok := own[i][k]; ok {
				src += " " + k + "=\"" + v + "\""
			}
		}
		src += "></" + tags[i] + ">"
	}
	src += "</defs></svg>"
	build := func() [3]string {
		ctx, err := newSVGContextReader(strings.NewReader(src), "", nil)
		if err != nil {
			panic(err)
		}
		return [3]string{vxAttrsOf(ctx, "g0"), vxAttrsOf(ctx, "g1"), vxAttrsOf(ctx, "g2")}
	}
	runs := 2
	if !vx.Symbolic() {
		runs = 30 // natively Go randomises each range statement
	}
	vx.MapOrderIn("inheritDefs")
	first := build()
	same := true
	for i := 1; i < runs; i++ {
		if build() != first {
			same = false
		}
	}
	vx.MapOrderIn("")
	vx.Reach("resolved")
	vx.Assert("templates-independent-of-map-order", same)
	// reference on acyclic chains
	for i := range ids {
		seen := map[int]bool{}
		cyclic := false
		for j := i; ; {
			if seen[j] {
				cyclic = true
				break
			}
			seen[j] = true
			if href[j] == 0 {
				break
			}
			j = href[j] - 1
		}
		if cyclic {
			continue
		}
		want := map[string]string{"id": ids[i]}
		for j := i; ; {
			for k, v := range own[j] {
				if _, ok := want[k]; !ok {
					want[k] = v
				}
			}
			if href[j] == 0 {
				break
			}
			j = href[j] - 1
		}
		var keys []string
		for k := range want {
			keys = append(keys, k)
		}
		sort.Strings(keys)
		s := ""
		for _, k := range keys {
			s += k + "=" + want[k] + ";"
		}
		vx.Assert("template-attributes:"+ids[i], first[i] == s)
	}
}
