//go:build verif

package svg

import (
	"github.com/benoitkugler/webrender/backend"
	"github.com/benoitkugler/webrender/css/parser"
	"github.com/benoitkugler/webrender/matrix"
	"github.com/benoitkugler/webrender/vx"
)

// a backend.Canvas that only records the matrices handed to GraphicState.Transform
type vxTrCanvas struct{ got []matrix.Transform }

func (c *vxTrCanvas) GetBoundingBox() (left, top, right, bottom backend.Fl) { return 0, 0, 100, 100 }
func (c *vxTrCanvas) SetBoundingBox(left, top, right, bottom backend.Fl)    {}
func (c *vxTrCanvas) OnNewStack(f func())                                   { f() }
func (c *vxTrCanvas) State() backend.GraphicState                           { return c }
func (c *vxTrCanvas) NewGroup(x, y, width, height backend.Fl) backend.Canvas {
	return &vxTrCanvas{}
}
func (c *vxTrCanvas) DrawWithOpacity(opacity backend.Fl, group backend.Canvas)               {}
func (c *vxTrCanvas) Paint(op backend.PaintOp)                                               {}
func (c *vxTrCanvas) Rectangle(x, y, width, height backend.Fl)                               {}
func (c *vxTrCanvas) MoveTo(x, y backend.Fl)                                                 {}
func (c *vxTrCanvas) LineTo(x, y backend.Fl)                                                 {}
func (c *vxTrCanvas) CubicTo(x1, y1, x2, y2, x3, y3 backend.Fl)                              {}
func (c *vxTrCanvas) ClosePath()                                                             {}
func (c *vxTrCanvas) AddFont(font backend.Font, content []byte) *backend.FontChars           { return nil }
func (c *vxTrCanvas) DrawText(texts []backend.TextDrawing)                                   {}
func (c *vxTrCanvas) DrawRasterImage(image backend.RasterImage, width, height backend.Fl)    {}
func (c *vxTrCanvas) DrawGradient(gradient backend.GradientLayout, width, height backend.Fl) {}
func (c *vxTrCanvas) SetAlphaMask(mask backend.Canvas)                                       {}
func (c *vxTrCanvas) Clip(evenOdd bool)                                                      {}
func (c *vxTrCanvas) SetAlpha(alpha backend.Fl, stroke bool)                                 {}
func (c *vxTrCanvas) SetColorRgba(color parser.RGBA, stroke bool)                            {}
func (c *vxTrCanvas) SetColorPattern(p backend.Canvas, w, h backend.Fl, mat matrix.Transform, stroke bool) {
}
func (c *vxTrCanvas) SetBlendingMode(mode string)                    {}
func (c *vxTrCanvas) SetLineWidth(width backend.Fl)                  {}
func (c *vxTrCanvas) SetDash(dashes []backend.Fl, offset backend.Fl) {}
func (c *vxTrCanvas) SetStrokeOptions(backend.StrokeOptions)         {}
func (c *vxTrCanvas) GetTransform() matrix.Transform                 { return matrix.Identity() }
func (c *vxTrCanvas) Transform(mt matrix.Transform)                  { c.got = append(c.got, mt) }
func (c *vxTrCanvas) SetTextPaint(op backend.PaintOp)                {}

// the matrix handed to the backend for an SVG transform list is the product of the listed
// transformations, for every invertible product (reflections included); a singular one is
// not applied.
func VxH_C17_svg_apply_transform() {
	px := func(id string) Value {
		v := Fl(vx.F32(id))
		vx.Assume(vx.And(v >= -10, v <= 10))
		return Value{V: v, U: Px}
	}
	var trs []transform
	want := matrix.Identity()
	switch vx.Choose("list", 3) {
	case 0: // matrix(a b c d e f)
		t := transform{kind: customMatrix, args: [6]Value{px("a"), px("b"), px("c"), px("d"), px("e"), px("f")}}
		trs = []transform{t}
		want = matrix.New(t.args[0].V, t.args[1].V, t.args[2].V, t.args[3].V, t.args[4].V, t.args[5].V)
	case 1: // translate(x y) scale(sx sy)
		x, y, sx, sy := px("x"), px("y"), px("sx"), px("sy")
		trs = []transform{{kind: translate, args: [6]Value{x, y}}, {kind: scale, args: [6]Value{sx, sy}}}
		want = matrix.New(sx.V, 0, 0, sy.V, x.V, y.V)
	default: // scale(sx sy) translate(x y)
		x, y, sx, sy := px("x"), px("y"), px("sx"), px("sy")
		trs = []transform{{kind: scale, args: [6]Value{sx, sy}}, {kind: translate, args: [6]Value{x, y}}}
		want = matrix.New(sx.V, 0, 0, sy.V, sx.V*x.V, sy.V*y.V)
	}
	dst := &vxTrCanvas{}
	applyTransform(dst, trs, drawingDims{fontSize: 16, innerWidth: 100, innerHeight: 100})
	vx.Reach("applied")
	det := want.A*want.D - want.B*want.C
	if det != 0 {
		vx.Reach("invertible")
		vx.Assert("transform-handed-to-the-backend-once", len(dst.got) == 1)
		if len(dst.got) == 1 {
			g := dst.got[0]
			eq := func(a, b Fl) bool { return vx.RealEq(float64(a), float64(b)) }
			vx.Assert("matrix-is-the-product", vx.And(vx.And(eq(g.A, want.A), eq(g.B, want.B)), vx.And(vx.And(eq(g.C, want.C), eq(g.D, want.D)), vx.And(eq(g.E, want.E), eq(g.F, want.F)))))
		}
	} else {
		vx.Reach("singular")
		vx.Assert("singular-matrix-not-applied", len(dst.got) == 0)
	}
}
