//go:build verif

package svg

import (
	"strconv"

	"github.com/benoitkugler/webrender/vx"
)

func vxDigit(b byte) bool { return '0' <= b && b <= '9' }

// vxSVGNumber returns the end of the longest SVG number starting at p, or p if there is none.
func vxSVGNumber(s string, p int) int {
	i := p
	if i < len(s) && (s[i] == '+' || s[i] == '-') {
		i++
	}
	d := 0
	for i < len(s) && vxDigit(s[i]) {
		i++
		d++
	}
	if i < len(s) && s[i] == '.' {
		j := i + 1
		f := 0
		for j < len(s) && vxDigit(s[j]) {
			j++
			f++
		}
		if d > 0 || f > 0 {
			i = j
			d += f
		}
	}
	if d == 0 {
		return p
	}
	if i < len(s) && (s[i] == 'e' || s[i] == 'E') {
		j := i + 1
		if j < len(s) && (s[j] == '+' || s[j] == '-') {
			j++
		}
		if j < len(s) && vxDigit(s[j]) {
			for j < len(s) && vxDigit(s[j]) {
				j++
			}
			i = j
		}
	}
	return i
}

// number lists: the scanner splits the text exactly as the SVG number grammar does.
func VxH_C18_numbers() {
	n := vx.Choose("n", 4+vx.Tier()) + 1
	s := vx.String("s", n)
	for i := 0; i < n; i++ {
		c := s[i]
		vx.Assume(vx.Or(vx.Or(vx.And('0' <= c, c <= '9'), vx.Or(c == '.', c == '-')), vx.Or(vx.Or(c == '+', c == 'e'), vx.Or(c == ' ', c == ','))))
	}
	got, err := parsePoints(s, nil, false)
	// oracle
	var want []Fl
	valid := true
	for p := 0; p < n; {
		if s[p] == ' ' || s[p] == ',' {
			p++
			continue
		}
		e := vxSVGNumber(s, p)
		if e == p {
			valid = false
			break
		}
		q := p
		if s[q] == '+' { // an explicit plus sign does not change the value
			q++
		}
		v, _ := strconv.ParseFloat(s[q:e], 32)
		want = append(want, Fl(v))
		p = e
	}
	if !valid {
		// how malformed lists are reported (error or lenient skipping) is not part of the claim
		vx.Reach("invalid")
		return
	}
	vx.Reach("valid")
	vx.Assert("valid-number-list-accepted", err == nil)
	vx.Assert("number-count", len(got) == len(want))
	for i := range want {
		vx.Assert("number-value", vx.ApproxEq(float64(got[i]), float64(want[i])))
	}
}

// viewBox / preserveAspectRatio: uniform scale min (meet) or max (slice), independent
// scales for none, alignment offsets, viewBox origin mapped to the viewport origin.
func VxH_C18_viewbox() {
	w, h := vx.F32("w"), vx.F32("h")
	vb := Rectangle{X: vx.F32("vx"), Y: vx.F32("vy"), Width: vx.F32("vw"), Height: vx.F32("vh")}
	vx.Assume(w > 0 && h > 0 && vb.Width > 0 && vb.Height > 0)
	pos := []string{"min", "mid", "max"}
	var pr preserveAspectRatio
	pr.xPosition, pr.yPosition = pos[vx.Choose("xpos", 3)], pos[vx.Choose("ypos", 3)]
	pr.none, pr.slice = vx.Bool("none"), vx.Bool("slice")
	sx, sy, tx, ty := pr.resolveTransforms(w, h, &vb, nil)
	vx.Reach("resolved")
	rx, ry := w/vb.Width, h/vb.Height
	var ex, ey Fl
	if pr.none {
		ex, ey = rx, ry
	} else if pr.slice {
		ex = Fl(vx.IteF(rx > ry, float64(rx), float64(ry)))
		ey = ex
	} else {
		ex = Fl(vx.IteF(rx < ry, float64(rx), float64(ry)))
		ey = ex
	}
	vx.Assert("scale-x", vx.ApproxEq(float64(sx), float64(ex)))
	vx.Assert("scale-y", vx.ApproxEq(float64(sy), float64(ey)))
	// the viewBox rectangle lands aligned in the viewport
	off := func(p string, free Fl) Fl {
		switch p {
		case "mid":
			return free / 2
		case "max":
			return free
		}
		return 0
	}
	wantTx := off(pr.xPosition, w-vb.Width*ex) - vb.X*ex
	wantTy := off(pr.yPosition, h-vb.Height*ey) - vb.Y*ey
	vx.Assert("translate-x", vx.ApproxEq(float64(tx), float64(wantTx)))
	vx.Assert("translate-y", vx.ApproxEq(float64(ty), float64(wantTy)))
}

type vxPt struct{ x, y Fl }

type vxOp struct {
	op   pathOperation
	args [3]vxPt
}

// vxRef is a reference SVG path interpreter (SVG 1.1 section 8.3) over already split numbers.
type vxRef struct {
	cur, start, ctrl vxPt
	last             byte
	inPath           bool
	out              []vxOp
}

func (r *vxRef) step(cmd byte, a []Fl) {
	rel := cmd >= 'a'
	up := cmd
	if rel {
		up = cmd - 32
	}
	abs := func(x, y Fl) vxPt {
		if rel {
			return vxPt{r.cur.x + x, r.cur.y + y}
		}
		return vxPt{x, y}
	}
	quad := func(q, p vxPt) {
		p0 := r.cur
		c1 := vxPt{p0.x + (q.x-p0.x)*2/3, p0.y + (q.y-p0.y)*2/3}
		c2 := vxPt{p.x + (q.x-p.x)*2/3, p.y + (q.y-p.y)*2/3}
		r.out = append(r.out, vxOp{cubicTo, [3]vxPt{c1, c2, p}})
		r.ctrl, r.cur = q, p
	}
	switch up {
	case 'Z':
		if r.inPath {
			r.out = append(r.out, vxOp{close, [3]vxPt{r.start}})
			r.cur = r.start
			r.inPath = false
		}
	case 'M':
		for i := 0; i+1 < len(a); i += 2 {
			p := abs(a[i], a[i+1])
			if i == 0 {
				r.out = append(r.out, vxOp{moveTo, [3]vxPt{p}})
				r.start = p
				r.inPath = true
			} else {
				r.out = append(r.out, vxOp{lineTo, [3]vxPt{p}})
			}
			r.cur = p
		}
	case 'L':
		for i := 0; i+1 < len(a); i += 2 {
			p := abs(a[i], a[i+1])
			r.out = append(r.out, vxOp{lineTo, [3]vxPt{p}})
			r.cur = p
		}
	case 'H':
		for _, v := range a {
			x := v
			if rel {
				x += r.cur.x
			}
			r.cur = vxPt{x, r.cur.y}
			r.out = append(r.out, vxOp{lineTo, [3]vxPt{r.cur}})
		}
	case 'V':
		for _, v := range a {
			y := v
			if rel {
				y += r.cur.y
			}
			r.cur = vxPt{r.cur.x, y}
			r.out = append(r.out, vxOp{lineTo, [3]vxPt{r.cur}})
		}
	case 'C':
		for i := 0; i+5 < len(a); i += 6 {
			c1, c2, p := abs(a[i], a[i+1]), abs(a[i+2], a[i+3]), abs(a[i+4], a[i+5])
			r.out = append(r.out, vxOp{cubicTo, [3]vxPt{c1, c2, p}})
			r.ctrl, r.cur = c2, p
			r.last = cmd
		}
	case 'S':
		for i := 0; i+3 < len(a); i += 4 {
			c1 := r.cur
			if r.last == 'C' || r.last == 'c' || r.last == 'S' || r.last == 's' {
				c1 = vxPt{2*r.cur.x - r.ctrl.x, 2*r.cur.y - r.ctrl.y}
			}
			c2, p := abs(a[i], a[i+1]), abs(a[i+2], a[i+3])
			r.out = append(r.out, vxOp{cubicTo, [3]vxPt{c1, c2, p}})
			r.ctrl, r.cur = c2, p
			r.last = cmd
		}
	case 'Q':
		for i := 0; i+3 < len(a); i += 4 {
			q, p := abs(a[i], a[i+1]), abs(a[i+2], a[i+3])
			quad(q, p)
			r.last = cmd
		}
	case 'T':
		for i := 0; i+1 < len(a); i += 2 {
			q := r.cur
			if r.last == 'Q' || r.last == 'q' || r.last == 'T' || r.last == 't' {
				q = vxPt{2*r.cur.x - r.ctrl.x, 2*r.cur.y - r.ctrl.y}
			}
			p := abs(a[i], a[i+1])
			quad(q, p)
			r.last = cmd
		}
	}
	r.last = cmd
}

func vxNums(id string, k int) (string, []Fl) {
	text := ""
	var vals []Fl
	for i := 0; i < k; i++ {
		d := string([]byte{vx.ByteIn(id+string(rune('a'+i)), '0', '9')})
		v, _ := strconv.ParseFloat(d, 32)
		vx.Assume(vx.And(v >= -100, v <= 100)) // keeps float32 constant rounding (2/3) below the comparison tolerance
		vals = append(vals, Fl(v))
		text += " " + d
	}
	return text, vals
}

var vxArity = map[byte]int{'M': 2, 'L': 2, 'H': 1, 'V': 1, 'C': 6, 'S': 4, 'Q': 4, 'T': 2, 'Z': 0}

// every path command (absolute and relative, one or two argument groups) after a short
// history produces the operations of the reference interpreter.
func VxH_C18_path() {
	ref := &vxRef{last: ' '}
	text := "M"
	t, v := vxNums("m", 2)
	text += t
	ref.step('M', v)
	// one previous command, to set the "last command" and control point state
	prevs := []byte{0, 'L', 'C', 'Q', 'S', 'T', 'Z', 'c', 'q'}
	if p := prevs[vx.Choose("prev", len(prevs))]; p != 0 {
		up := p
		if up >= 'a' {
			up -= 32
		}
		t, v := vxNums("p", vxArity[up])
		text += string([]byte{p}) + t
		ref.step(p, v)
	}
	cmds := []byte("MmLlHhVvCcSsQqTtZz")
	cmd := cmds[vx.Choose("cmd", len(cmds))]
	up := cmd
	if up >= 'a' {
		up -= 32
	}
	groups := 1
	if vxArity[up] > 0 {
		groups += vx.Choose("groups", 2)
	}
	t, v = vxNums("c", vxArity[up]*groups)
	text += string([]byte{cmd}) + t
	ref.step(cmd, v)

	var p pathParser
	items, err := p.parsePath(text)
	vx.Reach("parsed")
	vx.Assert("valid-path-accepted", err == nil)
	vx.Assert("operation-count", len(items) == len(ref.out))
	for i := range ref.out {
		w, g := ref.out[i], items[i]
		vx.Assert("operation-kind", g.op == w.op)
		np := 1
		if w.op == cubicTo {
			np = 3
		}
		for k := 0; k < np; k++ {
			vx.Assert("operation-point", vx.And(vx.ApproxEq(float64(g.args[k].x), float64(w.args[k].x)), vx.ApproxEq(float64(g.args[k].y), float64(w.args[k].y))))
		}
	}
	vx.Assert("current-point", vx.And(vx.ApproxEq(float64(p.currentX), float64(ref.cur.x)), vx.ApproxEq(float64(p.currentY), float64(ref.cur.y))))
}

// elliptical arcs (SVG F.6): radii too small to span the chord are scaled up uniformly — their
// ratio is kept and neither shrinks.
func VxH_C18_arc_center() {
	ra0 := vx.F64("rx")
	vx.Assume(vx.And(ra0 >= 1, ra0 <= 100))
	rb0 := ra0 * []float64{1, 2, 0.5}[vx.Choose("ry-over-rx", 3)]
	sx, sy := 0.0, 0.0
	ex, ey := vx.F64("x1"), vx.F64("y1")
	vx.Assume(vx.And(vx.And(ex >= -100, ex <= 100), vx.And(ey >= -100, ey <= 100)))
	vx.Assume(vx.Or(ex != sx, ey != sy))
	sweep, small := vx.Choose("sweep", 2) == 1, vx.Choose("small-arc", 2) == 1
	ra, rb := ra0, rb0
	cx, cy := findEllipseCenter(&ra, &rb, 0, sx, sy, ex, ey, sweep, small)
	vx.Reach("centre")
	vx.Assert("radii-ratio-kept", vx.RealEq(ra*rb0, rb*ra0))
	vx.Assert("radii-not-shrunk", vx.And(ra >= ra0-1e-9, rb >= rb0-1e-9))
	// "both end points lie on the ellipse around the centre" (a degree-4 identity through two
	// square roots) was tried and is beyond z3's nlsat within 20 minutes: not claimed.
	_, _ = cx, cy
}

// path data details: an arc command with two argument groups draws two arcs, the second one
// from the end of the first to its own end point; numbers may use an upper-case exponent.
func VxH_C18_path_details() {
	var p pathParser
	rel := vx.Choose("relative", 2) == 1
	x1 := []Fl{10, 20, -10}[vx.Choose("x1", 3)]
	x2 := []Fl{20, 5, 30}[vx.Choose("x2", 3)]
	y2 := []Fl{0, 10}[vx.Choose("y2", 2)]
	cmd := "A"
	if rel {
		cmd = "a"
	}
	f := func(v Fl) string { return strconv.FormatFloat(float64(v), 'f', -1, 32) }
	text := "M0 0 " + cmd + "50 50 0 0 1 " + f(x1) + " 0 50 50 0 0 1 " + f(x2) + " " + f(y2)
	items, err := p.parsePath(text)
	vx.Reach("parsed")
	vx.Assert("arc-path-parses", err == nil && len(items) >= 3)
	end1 := point{x1, 0}
	end2 := point{x2, y2}
	if rel {
		end2 = point{x1 + x2, y2}
	}
	near := func(a, b point) bool {
		return vx.ApproxEq(float64(a.x), float64(b.x)) && vx.ApproxEq(float64(a.y), float64(b.y))
	}
	last := items[len(items)-1]
	vx.Assert("path-ends-at-the-second-arc-end-point", last.op == cubicTo && near(last.args[2], end2))
	passes := false
	for _, it := range items { // (a second arc of zero length is omitted: the first one may be the last item)
		if it.op == cubicTo && near(it.args[2], end1) {
			passes = true
		}
	}
	vx.Assert("first-arc-ends-at-its-end-point", passes)
	// upper-case exponent
	items, err = p.parsePath("M1E1 2 L 3 4")
	vx.Assert("upper-case-exponent", err == nil && len(items) == 2 && items[0].op == moveTo && near(items[0].args[0], point{10, 2}))
}

// <rect rx ry>: a missing radius takes the value of the other one, both are read from their
// own attribute.
func VxH_C18_rect_radii() {
	vals := []string{"", "10", "5", "2.5"}
	rx := vals[vx.Choose("rx", len(vals))]
	ry := vals[vx.Choose("ry", len(vals))]
	node := &cascadedNode{tag: "rect", attrs: nodeAttributes{"rx": rx, "ry": ry}}
	d, err := newRect(node, nil)
	vx.Reach("built")
	vx.Assert("rect-built", err == nil)
	r := d.(rect)
	num := func(s string) Fl {
		v, _ := strconv.ParseFloat(s, 32)
		return Fl(v)
	}
	wantX, wantY := rx, ry
	if wantX == "" {
		wantX = wantY
	}
	if wantY == "" {
		wantY = wantX
	}
	vx.Assert("rx-from-its-attribute", r.rx.V == num(wantX))
	vx.Assert("ry-from-its-attribute", r.ry.V == num(wantY))
}

// lengths in SVG attributes: a number followed by any of the supported units is read as that
// number in that unit.
func VxH_C18_value_units() {
	nums := []string{"5", "2.5", "-1", "0"}
	n := nums[vx.Choose("number", len(nums))]
	u := Unit(vx.Choose("unit", int(Ex)) + 1)
	sp := []string{"", " "}[vx.Choose("space", 2)]
	v, err := parseValue(n + sp + u.String())
	vx.Reach("parsed")
	want, _ := strconv.ParseFloat(n, 32)
	vx.Assert("value-with-unit-parses", err == nil)
	vx.Assert("number-kept", v.V == Fl(want))
	vx.Assert("unit-kept", v.U == u)
}
