//go:build verif

package text

import (
	pr "github.com/benoitkugler/webrender/css/properties"
	"github.com/benoitkugler/webrender/vx"
)

// `quotes: auto` picks its marks from the element's language: the marks found for a language
// tag do not depend on the order in which the table is visited, and a tag that extends two
// entries (fr_CH_x extends fr and fr_CH) takes the longest one.
func VxH_C15_lang_quotes() {
	// the real entries of a few related keys (the whole table has ~120 entries; every
	// permutation of it is out of reach)
	full := langQuotes
	sub := map[string][2]pr.Strings{}
	for _, k := range []string{"", "fr", "fr_CH", "de"} {
		sub[k] = full[k]
	}
	langQuotes = sub
	langs := []string{"fr_CH_x", "fr_BE", "de_AT", "xx", "fr_CH"}
	lang := langs[vx.Choose("lang", len(langs))]
	want := map[string]string{"fr_CH_x": "fr_CH", "fr_BE": "fr", "de_AT": "de", "xx": "", "fr_CH": "fr_CH"}[lang]
	runs := 2
	if !vx.Symbolic() {
		runs = 40
	}
	vx.MapOrderIn("GetLangQuotes")
	o1, c1 := GetLangQuotes(lang)
	same := true
	for i := 1; i < runs; i++ {
		o2, c2 := GetLangQuotes(lang)
		if !vxSame(o1, o2) || !vxSame(c1, c2) {
			same = false
		}
	}
	vx.MapOrderIn("")
	vx.Reach("looked-up")
	vx.Assert("quotes-independent-of-map-order", same)
	vx.Assert("longest-matching-entry", vxSame(o1, sub[want][0]) && vxSame(c1, sub[want][1]))
	langQuotes = full
}

func vxSame(a, b []string) bool {
	if len(a) != len(b) {
		return false
	}
	for i := range a {
		if a[i] != b[i] {
			return false
		}
	}
	return true
}
