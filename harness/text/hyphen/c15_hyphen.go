//go:build verif

package hyphen

import (
	"github.com/benoitkugler/webrender/vx"
)

func vxStrs(a, b []string) bool {
	if len(a) != len(b) {
		return false
	}
	for i := range a {
		if a[i] != b[i] {
			return false
		}
	}
	return true
}

// hyphenating a word is a function of the word and the dictionary: a second render (its own
// Hyphener on the same shared dictionary data) and a repeated call give the same break
// candidates as the first, and the shared dictionary (non-standard hyphenation data
// included) is left unchanged.
func VxH_C15_hyphen_shared() {
	data := &complexHyphenation{Changes: [2]string{"sz", "sz"}, Index: -1, Cut: 3}
	other := &complexHyphenation{Changes: [2]string{"zs", "zs"}, Index: -1, Cut: 3}
	ref := hyphDicReference{Patterns: map[string]pattern{
		"ssz": {Start: 1, Values: []dataOrInt{{V: 1, Data: data}}},  // s1sz/sz=sz (Hungarian style)
		"zzs": {Start: 1, Values: []dataOrInt{{V: 3, Data: other}}}, // z3zs/zs=zs
		"a":   {Start: 1, Values: []dataOrInt{{V: 1}}},              // a1
		"as":  {Start: 1, Values: []dataOrInt{{V: 2}}},              // a2s
	}, MaxLength: 3}
	n := 3 + vx.Choose("len", 2+vx.Tier())
	word := make([]byte, n)
	for i := range word {
		// every other letter behaves like 'b'
		word[i] = vx.ByteIn("w"+string(rune('0'+i)), 'a', 'z')
	}
	upper := vx.Choose("upper", 2) == 1
	if upper {
		for i := range word {
			word[i] -= 'a' - 'A'
		}
	}
	w := string(word)
	first := Hyphener{hd: hyphDic{cache: map[string][]dataOrInt{}, data: ref}, left: 1, right: 1}
	second := Hyphener{hd: hyphDic{cache: map[string][]dataOrInt{}, data: ref}, left: 1, right: 1}
	r1 := first.Iterate(w)
	vx.Reach("hyphenated")
	r2 := second.Iterate(w)
	r3 := first.Iterate(w) // served from the per-render cache
	if len(r1) > 0 {
		vx.Reach("has-break")
	}
	vx.Assert("second-render-same", vxStrs(r1, r2))
	vx.Assert("repeated-call-same", vxStrs(r1, r3))
	vx.Assert("shared-data-unchanged", data.Index == -1 && other.Index == -1 && data.Cut == 3 && data.Changes[0] == "sz")
	for _, s := range r1 {
		vx.Assert("candidate-not-longer-than-word-plus-change", len(s) <= n+2)
	}
}
