//go:build verif

package text

import (
	pr "github.com/benoitkugler/webrender/css/properties"
	"github.com/benoitkugler/webrender/css/validation"
	"github.com/benoitkugler/webrender/text/hyphen"
	"github.com/benoitkugler/webrender/utils"
)

// VxAhem is a stand-in for the two text engines in whole-pipeline harnesses: a metric-exact
// "Ahem"-like model in which every rune is an em square (advance = font size, ascent 0.8 em,
// descent 0.2 em), a line may break after a run of spaces (U+0020) and must break at a
// preserved line feed; no bidi, no hyphenation, no shaping. It implements the contract of
// FontConfiguration.splitFirstLine (Length / ResumeAt / Width of the first line).
type VxAhem struct{}

type vxAhemLayout struct {
	text []rune
	just pr.Float
}

func (l *vxAhemLayout) Text() []rune { return l.text }
func (l *vxAhemLayout) Metrics() *LineMetrics {
	return &LineMetrics{Ascent: 8, UnderlinePosition: -1, UnderlineThickness: 1, StrikethroughPosition: 3, StrikethroughThickness: 1}
}
func (l *vxAhemLayout) Justification() pr.Float     { return l.just }
func (l *vxAhemLayout) SetJustification(s pr.Float) { l.just = s }
func (l *vxAhemLayout) ApplyJustification()         {}

func (VxAhem) FontContent(font FontOrigin) []byte { return nil }
func (VxAhem) AddFontFace(ruleDescriptors validation.FontFaceDescriptors, urlFetcher utils.UrlFetcher) string {
	return ""
}

func (VxAhem) CanBreakText(t []rune) pr.MaybeBool {
	if len(t) < 2 {
		return nil
	}
	for i := 1; i < len(t); i++ {
		if t[i-1] == ' ' && t[i] != ' ' {
			return pr.True
		}
		if t[i-1] == '\n' {
			return pr.True
		}
	}
	return pr.False
}

func (VxAhem) width0(style *TextStyle) pr.Fl  { return style.Size }
func (VxAhem) heightx(style *TextStyle) pr.Fl { return style.Size * 0.8 }
func (VxAhem) spaceHeight(style *TextStyle) (height, baseline pr.Float) {
	return pr.Float(style.Size), pr.Float(style.Size) * 0.8
}

func vxAdvance(n int, style *TextStyle, spaces int) pr.Float {
	return pr.Float(n)*pr.Float(style.Size+style.LetterSpacing) + pr.Float(spaces)*pr.Float(style.WordSpacing)
}

func vxCountSpaces(t []rune) int {
	n := 0
	for _, r := range t {
		if r == ' ' {
			n++
		}
	}
	return n
}

func (VxAhem) splitFirstLine(hyphenCache map[HyphenDictKey]hyphen.Hyphener, text []rune, style *TextStyle,
	maxWidth pr.MaybeFloat, minimum, isLineStart bool,
) FirstLine {
	n := len(text)
	if n == 0 {
		return FirstLine{Layout: &vxAhemLayout{}, ResumeAt: -1}
	}
	wrap, collapse := style.textWrap(), style.spaceCollapse()
	size := pr.Float(style.Size)
	limit, forced := n, false
	for i, r := range text {
		if r == '\n' {
			limit, forced = i, true
			break
		}
	}
	line := func(length, resume int) FirstLine {
		if resume >= n {
			resume = -1
		}
		t := text[:length]
		return FirstLine{
			Layout: &vxAhemLayout{text: t}, Length: length, ResumeAt: resume,
			Width: vxAdvance(len(t), style, vxCountSpaces(t)), Height: size, Baseline: size * 0.8,
		}
	}
	trimmed := func(p int) int {
		for p > 0 && text[p-1] == ' ' {
			p--
		}
		return p
	}
	whole := func() FirstLine {
		if forced {
			return line(limit, limit+1)
		}
		return line(n, -1)
	}
	mw, hasMax := maxWidth.(pr.Float)
	if !wrap || !hasMax || mw == pr.Inf {
		return whole()
	}
	// trailing spaces hang: they never prevent a line from fitting
	fits := func(p int) bool {
		q := trimmed(p)
		return vxAdvance(q, style, vxCountSpaces(text[:q])) <= mw
	}
	if fits(limit) {
		return whole()
	}
	best, first := -1, -1
	for p := 1; p < limit; p++ {
		if text[p-1] == ' ' && text[p] != ' ' {
			if first == -1 {
				first = p
			}
			if fits(p) {
				best = p
			}
		}
	}
	if best == -1 {
		best = first // a single unbreakable unit overflows
	}
	if best == -1 {
		return whole()
	}
	length := best
	if collapse {
		length = trimmed(best)
	}
	return line(length, best)
}
