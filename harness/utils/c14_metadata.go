//go:build verif

package utils

import (
	"strings"

	"github.com/benoitkugler/webrender/vx"
	"golang.org/x/net/html"
)

// <meta name=...> names are matched ASCII case-insensitively and nothing else: letters that only
// Unicode case folding maps to ASCII (U+212A KELVIN SIGN, U+0130, U+017F) do not make a
// standard name, and the content of the standard ones is forwarded unchanged.
func VxH_C14_metadata() {
	names := []string{"keywords", "KEYWORDS", "KeyWords", "Keywords", "keywordſ", "description", "DESCRİPTİON", "Description", "x-keywords", "author", "AUTHOR"}
	name := names[vx.Choose("name", len(names))]
	content := []string{"a, b", "Some Text"}[vx.Choose("content", 2)]
	src := "<html><head><title>T</title><meta name=\"" + name + "\" content=\"" + content + "\"></head><body></body></html>"
	root, err := html.Parse(strings.NewReader(src))
	if err != nil {
		panic(err)
	}
	md := GetHtmlMetadata((*HTMLNode)(root), "")
	vx.Reach("extracted")
	vx.Assert("title-forwarded", md.Title == "T")
	lower := AsciiLower(name)
	isAscii := true
	for i := 0; i < len(name); i++ {
		if name[i] >= 0x80 {
			isAscii = false
		}
	}
	switch {
	case isAscii && lower == "keywords":
		want := 0
		if content == "a, b" {
			want = 2
		} else if content == "Some Text" {
			want = 1
		}
		vx.Assert("keywords-forwarded", len(md.Keywords) == want)
	case isAscii && lower == "description":
		vx.Assert("description-forwarded", md.Description == content)
	case isAscii && lower == "author":
		vx.Assert("author-forwarded", len(md.Authors) == 1 && md.Authors[0] == content)
	default:
		vx.Reach("not-a-standard-name")
		vx.Assert("other-names-ignored", len(md.Keywords) == 0 && md.Description == "" && len(md.Authors) == 0)
	}
}

// dcterms.created / dcterms.modified: the time zone designator ±hh:mm gives an offset of that
// sign and that many hours and minutes.
func VxH_C14_w3c_date() {
	neg := vx.Choose("sign", 2) == 1
	h := []int{0, 1, 5, 11}[vx.Choose("tz-hours", 4)]
	m := []int{0, 15, 30, 45}[vx.Choose("tz-minutes", 4)]
	if h == 0 && m == 0 {
		return // UTC (time.UTC is set by the initialiser of package time, which the engine does not run)
	}
	two := func(n int) string { return string([]byte{byte('0' + n/10), byte('0' + n%10)}) }
	sign := "+"
	if neg {
		sign = "-"
	}
	t, err := parseW3cDate("dcterms.created", "2011-04-05T12:30:00"+sign+two(h)+":"+two(m))
	vx.Reach("parsed")
	vx.Assert("date-accepted", err == nil)
	_, offset := t.Zone()
	want := h*3600 + m*60
	if neg {
		want = -want
	}
	vx.Assert("time-zone-offset", offset == want)
	vx.Assert("wall-clock-kept", t.Hour() == 12 && t.Minute() == 30 && t.Day() == 5)
}
