//go:build verif

package utils

import (
	"strings"

	"github.com/benoitkugler/webrender/vx"
	"golang.org/x/net/html"
)

// <meta name=...> names are matched ASCII case-insensitively and nothing else: letters that only
// Unicode case folding maps to ASCII (U+212A KELVIN SIGN, U+0130, U+017F) do not make a
// standard name, and the content of the standard ones is forwarded unchanged.
func VxH_C14_metadata() {
	names := []string{"keywords", "KEYWORDS", "KeyWords", "Keywords", "keywordſ", "description", "DESCRİPTİON", "Description", "x-keywords", "author", "AUTHOR"}
	name := names[vx.Choose("name", len(names))]
	content := []string{"a, b", "Some Text"}[vx.Choose("content", 2)]
	src := "<html><head><title>T</title><meta name=\"" + name + "\" content=\"" + content + "\"></head><body></body></html>"
	root, err := html.Parse(strings.NewReader(src))
	if err != nil {
		panic(err)
	}
	md := GetHtmlMetadata((*HTMLNode)(root), "")
	vx.Reach("extracted")
	vx.Assert("title-forwarded", md.Title == "T")
	lower := AsciiLower(name)
	isAscii := true
	for i := 0; i < len(name); i++ {
		if name[i] >= 0x80 {
			isAscii = false
		}
	}
	switch {
	case isAscii && lower == "keywords":
		want := 0
		if content == "a, b" {
			want = 2
		} else if content == "Some Text" {
			want = 1
		}
		vx.Assert("keywords-forwarded", len(md.Keywords) == want)
	case isAscii && lower == "description":
		vx.Assert("description-forwarded", md.Description == content)
	case isAscii && lower == "author":
		vx.Assert("author-forwarded", len(md.Authors) == 1 && md.Authors[0] == content)
	default:
		vx.Reach("not-a-standard-name")
		vx.Assert("other-names-ignored", len(md.Keywords) == 0 && md.Description == "" && len(md.Authors) == 0)
	}
}
