// Package vx is the harness runtime of symgo. Under symbolic execution every
// function here is intercepted by the engine; compiled natively it replays
// concrete input vectors produced by the solver (path and counterexample replay).
package vx

import (
	"bufio"
	"encoding/hex"
	"encoding/json"
	"fmt"
	"math"
	"math/big"
	"os"
	"reflect"
	"strconv"
	"strings"
)

type Event struct {
	Kind  string `json:"kind"`
	Label string `json:"label"`
	OK    bool   `json:"ok,omitempty"`
	Value string `json:"value,omitempty"`
}

type vector struct {
	Inputs map[string]string `json:"inputs"`
}

type result struct {
	Status string  `json:"status"`
	Events []Event `json:"events,omitempty"`
	Panic  string  `json:"panic,omitempty"`
	Detail string  `json:"detail,omitempty"`
}

type (
	assumeFalse struct{}
	assertFail  struct{ label string }
	stop        struct{}
)

var (
	cur    map[string]string
	events []Event
	mapord bool
)

func get(id string) (string, bool) {
	v, ok := cur[id]
	return v, ok
}

func intOf(id string, lo int64) int64 {
	s, ok := get(id)
	if !ok {
		return lo
	}
	n, err := strconv.ParseInt(s, 10, 64)
	if err != nil {
		u, err2 := strconv.ParseUint(s, 10, 64)
		if err2 != nil {
			panic("vx: bad integer for " + id + ": " + s)
		}
		return int64(u)
	}
	return n
}

func Int(id string, lo, hi int) int       { return int(intOf(id, int64(lo))) }
func IntM(id string, lo, hi int) int      { return int(intOf(id, int64(lo))) }
func Int32(id string, lo, hi int32) int32 { return int32(intOf(id, int64(lo))) }
func Uint8(id string) uint8               { return uint8(intOf(id, 0)) }
func Byte(id string) byte                 { return byte(intOf(id, 0)) }
func ByteIn(id string, lo, hi byte) byte  { return byte(intOf(id, int64(lo))) }
func Rune(id string, lo, hi rune) rune    { return rune(intOf(id, int64(lo))) }
func Bool(id string) bool                 { s, _ := get(id); return s == "true" }
func Choose(id string, n int) int         { return int(intOf(id, 0)) }

func ratOf(id string) float64 {
	s, ok := get(id)
	if !ok {
		return 0
	}
	r, ok := new(big.Rat).SetString(s)
	if !ok {
		panic("vx: bad rational for " + id + ": " + s)
	}
	f, _ := r.Float64()
	return f
}

func F32(id string) float32 { return float32(ratOf(id)) }
func F64(id string) float64 { return ratOf(id) }

func Bytes(id string, n int) []byte {
	out := make([]byte, n)
	for k := range out {
		out[k] = Byte(fmt.Sprintf("%s[%d]", id, k))
	}
	return out
}

func String(id string, n int) string { return string(Bytes(id, n)) }

func Assume(c bool) {
	if !c {
		panic(assumeFalse{})
	}
}

func Assert(label string, c bool) {
	events = append(events, Event{Kind: "assert", Label: label, OK: c})
	if !c {
		panic(assertFail{label})
	}
}

func Reach(label string) { events = append(events, Event{Kind: "reach", Label: label}) }
func Stop()              { panic(stop{}) }
func MapOrder(on bool)   { mapord = on }

// MapOrderIn makes the order of every map range statement located in a function whose
// name contains fn a solver-chosen permutation ("" switches it off). Natively Go's own
// randomisation is used.
func MapOrderIn(fn string) { mapord = fn != "" }
func Symbolic() bool       { return false }

// Tier is 0 for the quick tier and 1 for the thorough tier.
func Tier() int {
	if os.Getenv("VX_TIER") == "1" {
		return 1
	}
	return 0
}

func ObserveInt(label string, v int) {
	events = append(events, Event{Kind: "observe", Label: label, Value: strconv.Itoa(v)})
}

func ObserveBool(label string, v bool) {
	events = append(events, Event{Kind: "observe", Label: label, Value: strconv.FormatBool(v)})
}

// ObserveString records a string; when symgo saw symbolic bytes it records one
// event per byte, so the replay side normalises both forms (see Normalize).
func ObserveString(label string, v string) {
	events = append(events, Event{Kind: "observe", Label: label, Value: "hex:" + hex.EncodeToString([]byte(v))})
}

// Or, And, Not, Implies and Ite build oracle terms without forking paths.
func Or(a, b bool) bool      { return a || b }
func And(a, b bool) bool     { return a && b }
func Not(a bool) bool        { return !a }
func Implies(a, b bool) bool { return !a || b }
func Ite(c bool, a, b int) int {
	if c {
		return a
	}
	return b
}
func IteByte(c bool, a, b byte) byte {
	if c {
		return a
	}
	return b
}
func IteF(c bool, a, b float64) float64 {
	if c {
		return a
	}
	return b
}

func DeepEqual(a, b interface{}) bool { return reflect.DeepEqual(a, b) }

func Sin(x float64) float64 { return math.Sin(x) }
func Cos(x float64) float64 { return math.Cos(x) }
func Tan(x float64) float64 { return math.Tan(x) }

// ApproxEq is exact equality over the reals under symgo (real mode) and a
// relative/absolute 1e-4 comparison natively (float32 rounding).
func ApproxEq(a, b float64) bool {
	d := math.Abs(a - b)
	m := math.Max(1, math.Max(math.Abs(a), math.Abs(b)))
	return d <= 1e-4*m
}

// Finite reports whether x is neither NaN nor an infinity. Under symgo a symbolic real is
// always finite: the paths on which the real code produces Inf/NaN (a float division by
// zero) leave the real-number model and are decided by running their solver model natively.
func Finite(x float64) bool { return !math.IsNaN(x) && !math.IsInf(x, 0) }

// RealEq is exact equality over the reals under symgo and the ApproxEq
// tolerance natively (where float32 rounding applies).
func RealEq(a, b float64) bool { return ApproxEq(a, b) }

// ChooseOrder returns the order in which map keys should be visited natively
// when MapOrder is on: natively Go's own (random) order is used, so harnesses
// that depend on it must compare two runs themselves.

// RunReplay drives native replay: VX_HARNESS names the harness, VX_VECTORS is a
// JSONL file of input vectors, VX_OUT receives one JSON result per line.
func RunReplay(harnesses map[string]func()) error {
	name := os.Getenv("VX_HARNESS")
	h, ok := harnesses[name]
	if !ok {
		return fmt.Errorf("vx: unknown harness %q", name)
	}
	in, err := os.Open(os.Getenv("VX_VECTORS"))
	if err != nil {
		return err
	}
	defer in.Close()
	out, err := os.Create(os.Getenv("VX_OUT"))
	if err != nil {
		return err
	}
	defer out.Close()
	w := bufio.NewWriter(out)
	defer w.Flush()
	sc := bufio.NewScanner(in)
	sc.Buffer(make([]byte, 1<<20), 1<<26)
	for sc.Scan() {
		line := strings.TrimSpace(sc.Text())
		if line == "" {
			continue
		}
		var v vector
		if err := json.Unmarshal([]byte(line), &v); err != nil {
			return err
		}
		res := runOne(h, v.Inputs)
		data, _ := json.Marshal(res)
		w.Write(data)
		w.WriteByte('\n')
	}
	return sc.Err()
}

func runOne(h func(), inputs map[string]string) (res result) {
	cur = inputs
	events = nil
	mapord = false
	defer func() {
		res.Events = events
		if p := recover(); p != nil {
			switch p := p.(type) {
			case assumeFalse:
				res.Status = "assume-false"
			case assertFail:
				res.Status = "assert-failed"
				res.Detail = p.label
			case stop:
				res.Status = "stopped"
			case error:
				res.Status = "panic"
				res.Panic = p.Error()
			default:
				res.Status = "panic"
				res.Panic = "panic: " + fmt.Sprint(p)
			}
		}
	}()
	h()
	res.Status = "ok"
	return
}
